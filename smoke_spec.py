import sys, random
sys.path.insert(0, "harness")
import core
core.use_repo()
from gen import versions as GV, specifiers as GS
from packaging.specifiers import Specifier, InvalidSpecifier
from packaging.version import Version, InvalidVersion
rng = random.Random(5)
lines, reals = [], []
def ob(x): return "~" if x is None else ("1" if x else "0")
for i in range(20000):
    near = GV.struct(rng)
    c = GS.clause_struct(rng, near=near)
    s = GS.spell_clause(rng, c) if rng.random() < 0.9 else GS.malformed_clause(rng)
    cand = GV.spell(rng, GV.neighbour(rng, near) if rng.random() < 0.8 else GV.struct(rng))
    ov = rng.choice([None, None, True, False]); pre = rng.choice([None, True, True, False])
    k = rng.random()
    if k < 0.6:
        lines.append("\t".join(["spec.contains", core.enc(s), ob(ov), core.enc(cand), ob(pre)]))
        try:
            sp = Specifier(s, prereleases=ov)
            try: r = core.encb(sp.contains(cand, prereleases=pre))
            except Exception as e: r = "raw " + type(e).__name__
        except InvalidSpecifier: r = "err InvalidSpecifier"
    elif k < 0.7:
        lines.append("\t".join(["spec.parse", core.enc(s)]))
        try:
            sp = Specifier(s); r = "ok " + core.enc(sp.operator) + " " + core.enc(sp.version)
        except InvalidSpecifier: r = "err InvalidSpecifier"
    elif k < 0.8:
        lines.append("\t".join(["spec.canon", core.enc(s)]))
        try:
            sp = Specifier(s); o, c2 = sp._canonical_spec; r = core.enc(o) + " " + core.enc(c2)
        except InvalidSpecifier: r = "err InvalidSpecifier"
    else:
        cands = [GV.spell(rng, GV.neighbour(rng, near) if rng.random() < 0.7 else GV.struct(rng)) for _ in range(rng.randrange(0, 6))]
        lines.append("\t".join(["spec.filter", core.enc(s), ob(ov), ob(pre), ",".join(core.enc(x) for x in cands)]))
        try:
            sp = Specifier(s, prereleases=ov)
            try:
                out = list(sp.filter([(x) for x in cands], prereleases=pre))
                # identity: map back to indices in order
                idx = []; j = 0
                for o in out:
                    while cands[j] is not o: j += 1
                    idx.append(j); j += 1
                r = "ok " + ",".join(map(str, idx))
            except Exception as e: r = "raw " + type(e).__name__
        except InvalidSpecifier: r = "err InvalidSpecifier"
    reals.append(r)
outs = core.batch_oneshot(lines)
bad = [(l, r, o) for l, r, o in zip(lines, reals, outs) if r != o]
print(len(lines), "cases", len(bad), "mismatches")
from collections import Counter
print(Counter(r.split(" ")[0] + ":" + l.split("\t")[0] for l, r in zip(lines, reals)).most_common())
for l, r, o in bad[:15]:
    p = l.split("\t")
    print(p[0], [core.dec(x) if all(c in "0123456789abcdef.-~" for c in x) and x not in ("0","1") else x for x in p[1:]], "real=", r, "model=", o)
