#!/bin/sh
# Build the framework from files on disk only (offline): regenerate model data from /repo, build Lean.
set -e
here=$(cd "$(dirname "$0")" && pwd)
cd "$here"
/venv/bin/python harness/translate.py --all || echo "translator reported problems (checks will report them)"
cd lean
lake build PkgModel Driver pkgdriver PkgProofs
