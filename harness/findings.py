"""Matchers for known_findings.json.  A finding suppresses only the violations its matcher accepts."""
from __future__ import annotations

import json


def _canon(x):
    return json.dumps(x, sort_keys=True, default=str)


MATCHERS = {}


def matcher(name):
    def deco(f):
        MATCHERS[name] = f
        return f
    return deco


def match(known, violation):
    """first listed finding whose matcher accepts this violation record, else None"""
    for f in known:
        m = f.get("matcher", {"kind": "exact"})
        kind = m.get("kind", "exact")
        if kind == "exact":
            w = f.get("witness", {})
            if w.get("law") == violation.get("law") and _canon(w.get("input")) == _canon(violation.get("input")):
                return f
        elif kind == "class":
            fn = MATCHERS.get(m["name"])
            if fn is not None and (not m.get("law") or m["law"] == violation.get("law")):
                try:
                    if fn(violation, m):
                        return f
                except Exception:
                    pass
    return None


@matcher("equal_respelled_duplicate")
def _equal_respelled_duplicate(v, m):
    """a clause list holding two different strings that are equal as Specifier objects"""
    import core
    core.use_repo()
    from packaging.specifiers import Specifier
    cl = v["input"]["clauses"]
    sp = [Specifier(c) for c in cl]
    return any(cl[i].strip() != cl[j].strip() and sp[i] == sp[j] for i in range(len(cl)) for j in range(i))


@matcher("arbitrary_clause_then_comma_space")
def _arbitrary_clause_then_comma_space(v, m):
    """a requirement string in which an `===` clause is directly followed by a comma, and white space follows before the
    clause list is over: directly (`===1.0, >=2`) or inside the next clause (`===1.0,>= 2`).  The SPECIFIER token swallows
    the comma and everything up to that white space; what comes after it is then not a continuation of the list."""
    import random
    import re
    from props.C08 import render
    s = render(random.Random(v["input"]["seed"]), v["input"]["st"], loose=True)
    return "rejected" in str(v.get("detail", "")) and re.search(r"===[ \t]*[^\s;)]*,[^\s;)]*[ \t]+[^\s,;)]", s) is not None


@matcher("equal_respelled_duplicate_in_requirement")
def _equal_respelled_duplicate_in_requirement(v, m):
    w = dict(v); w["input"] = {"clauses": v["input"]["st"]["clauses"]}
    return _equal_respelled_duplicate(w, m)

# ---------------------------------------------------------------- C13
_CI_EXTRA = "İıſK"      # non-ASCII characters that IGNORECASE folds onto ASCII letters


@matcher("c13_validate_trailing_newline")
def _c13_validate_trailing_newline(v, m):
    """exactly: an (ASCII) valid name followed by one newline"""
    from props.C13 import ref_valid
    s = v["input"]["s"]
    return s.endswith("\n") and ref_valid(s[:-1])


@matcher("c13_validate_non_ascii_letter")
def _c13_validate_non_ascii_letter(v, m):
    """exactly: a name that is valid once U+0130/U+0131/U+017F/U+212A are read as letters (optionally followed by one
    newline, which the same anchor lets through)"""
    from props.C13 import ref_valid
    s = v["input"]["s"]
    if not any(c in _CI_EXTRA for c in s):
        return False
    t = "".join("a" if c in _CI_EXTRA else c for c in s)
    if t.endswith("\n"):
        t = t[:-1]
    return ref_valid(t)


def _c13_dd(s):
    from props.C13 import ref_normalized
    return len(s) >= 3 and s[1:3] == "--" and ref_normalized(s[0] + "-" + s[3:])


@matcher("c13_normalized_dashdash_after_first")
def _c13_normalized_dashdash_after_first(v, m):
    """exactly: c--rest where c-rest is a normalised name (the look-ahead is never evaluated right after the first character)"""
    return _c13_dd(v["input"]["s"])


@matcher("c13_normalized_trailing_newline")
def _c13_normalized_trailing_newline(v, m):
    """exactly: a string is_normalized_name accepts without the newline, followed by one newline"""
    from props.C13 import ref_normalized
    s = v["input"]["s"]
    return s.endswith("\n") and (ref_normalized(s[:-1]) or _c13_dd(s[:-1]))


# ---------------------------------------------------------------- C14
@matcher("c14_damage_kind")
def _c14_damage_kind(v, m):
    """exactly the wheel_rejects inputs of one damage kind (the kind names the class: every input of the kind is affected)"""
    return v["input"].get("damage") == m["damage"]

# ---------------------------------------------------------------- C05 / C06 (SpecifierSet)
def _c05_all_clauses(inp):
    out = []
    for k in ("clauses", "clauses2", "a", "b", "c"):
        v = inp.get(k)
        if isinstance(v, list):
            out += [x for x in v if isinstance(x, str)]
    return out


@matcher("c05_equal_members_match_differently")
def c05_equal_members_match_differently(violation, m):
    """the input holds two clauses with operator m['operator'] that are equal as Specifier objects (so a set keeps
    only the first inserted one) although they disagree on one of the candidates"""
    from packaging.specifiers import Specifier
    inp = violation["input"]
    cl = [Specifier(c) for c in _c05_all_clauses(inp)]
    cands = inp.get("cands") or []
    for i, x in enumerate(cl):
        for y in cl[i + 1:]:
            if x.operator == y.operator == m["operator"] and x == y and str(x) != str(y):
                if any(x.contains(c, prereleases=True) != y.contains(c, prereleases=True) for c in cands):
                    return True
    return False


@matcher("c05_comma_in_arbitrary")
def c05_comma_in_arbitrary(violation, m):
    """str round trip of a set holding an `===` member whose text contains a comma"""
    from packaging.specifiers import Specifier
    for c in _c05_all_clauses(violation["input"]):
        s = Specifier(c)
        if s.operator == "===" and "," in s.version:
            return True
    return False


@matcher("c06_spec_filter_override_false")
def c06_spec_filter_override_false(violation, m):
    """Specifier.filter on a specifier whose stored override is an explicit False, called without argument:
    the law holds for every other (override, argument) combination of the same input"""
    inp = violation["input"]
    if inp.get("how") != "spec":
        return False
    combos = inp.get("combos") or []
    if [False, None] not in combos:
        return False
    from props.C06 import PROP
    rest = dict(inp)
    rest["combos"] = [c for c in combos if c != [False, None]]
    return PROP.check_law("filter_contains", rest)[0]


# ---------------------------------------------------------------- C03 / C04
def _c03_tokens(text):
    """what ``_compare_compatible`` derives its prefix from: the raw text split at '!' and '.', with
    ``<digits><a|b|c|rc><digits>`` items split in two"""
    import re
    epoch, _, rest = text.rpartition("!")
    toks = [epoch or "0"]
    for item in rest.split("."):
        m = re.fullmatch(r"([0-9]+)((?:a|b|c|rc)[0-9]+)", item)
        toks.extend(m.groups() if m else [item])
    return toks


def _struct_of(text):
    """structure of a version text as the library reads it (used only to classify string-level witnesses)"""
    from packaging.version import Version
    v = Version(text)
    loc = None if v.local is None else [int(x) if x.isdigit() else x for x in v.local.split(".")]
    return {"epoch": v.epoch, "release": list(v.release), "pre": v.pre, "post": v.post, "dev": v.dev, "local": loc}


@matcher("compat_prefix_from_raw_spelling")
def compat_prefix_from_raw_spelling(violation, m):
    """`~=V` clauses whose *raw* text, cut at the first segment starting with dev/a/b/rc/post, minus its last item,
    is not V's epoch and release minus the last component (suffix spelled c/pre/preview/rev/r/upper case/`a.1`, or a
    leading `v`): only there does the prefix match of `_compare_compatible` use the wrong prefix."""
    import itertools
    from gen import specrel as R
    law, inp = violation["law"], violation["input"]
    if law == "contains_vs_admits":
        if inp.get("op") != "~=":
            return False
        from props import C03
        text = C03.spelled(inp)[0].strip()[2:].strip()
    elif law == "compat_is_ge_and_prefix" or (law in ("equal_candidates_same_answer", "in_operator_final_candidate")
                                              and inp.get("op") == "~="):
        if law == "in_operator_final_candidate":
            from props import C03
            text = C03.spelled(inp)[0].strip()[2:].strip()
        else:
            from props import C04
            text = C04.compat_text(inp)
    elif law == "contains_vs_spec_strings":
        if not inp["clause"].strip().startswith("~="):
            return False
        text = inp["clause"].strip()[2:].strip()
        inp = dict(inp, v=_struct_of(text))
    else:
        return False
    v = R.norm(inp["v"])
    toks = _c03_tokens(text)
    not_suffix = lambda s: not any(s.startswith(p) for p in ("dev", "a", "b", "rc", "post"))
    pref = list(itertools.takewhile(not_suffix, toks))[:-1]
    want = [v["epoch"]] + list(v["release"][:-1])
    good = all(t.isascii() and t.isdigit() for t in pref) and [int(t) for t in pref] == want
    return not good


@matcher("gt_rejects_local_of_another_version")
def gt_rejects_local_of_another_version(violation, m):
    """`>V` with a candidate that carries a local label, has V's release, lies above V and is *not* V itself plus
    a label (nor an excluded post-release): the local-version exclusion compares base versions only."""
    from gen import specrel as R
    law, inp = violation["law"], violation["input"]
    if law == "contains_vs_spec_strings":
        cl = inp["clause"].strip()
        if not cl.startswith(">") or cl.startswith(">="):
            return False
        inp = {"op": ">", "v": _struct_of(cl[1:]), "c": _struct_of(inp["cand"])}
    if law not in ("contains_vs_admits", "local_label_blind", "contains_vs_spec_strings",
                   "in_operator_final_candidate") or inp.get("op") != ">":
        return False
    v, c = R.norm(inp["v"]), R.norm(inp["c"])
    return c["local"] is not None and R.same_release(c, v) and R.admits(">", v, False, c)

@matcher("numeric_component_beyond_int_str_limit")
def _beyond_int_limit(violation, m):
    """C02/C11/C12: the witness is a version with one numeric component longer than the running interpreter's
    ``sys.get_int_max_str_digits()`` (CPython >= 3.11; 0 means unlimited, then nothing matches)."""
    import sys

    lim = getattr(sys, "get_int_max_str_digits", lambda: 0)()
    inp = violation.get("input") or {}
    if not lim:
        return False
    if isinstance(inp.get("digits"), int):
        return inp["digits"] > lim
    s = inp.get("s")
    if isinstance(s, str):
        import re

        return any(len(r) > lim for r in re.findall(r"[0-9]+", s))
    return False

@matcher("ios_minor_above_9")
def _ios_minor_above_9(violation, m):
    """C16: ios_platforms enumerates the minors of previous major series only up to 9, so the tags of a
    (hypothetical) iOS X.10+ are not contained in those of a later major series."""
    inp = violation.get("input") or {}
    return (violation.get("law") == "newer_superset" and inp.get("family") == "ios"
            and isinstance(inp.get("v"), list) and len(inp["v"]) == 2 and inp["v"][1] > 9)

# --------------------------------------------------------------------------- C17 / C18 (metadata.py)
def _c17_data(v):
    d = v["input"]["data"]
    return dict((k, x) for k, x in d) if isinstance(d, list) else d


def _c17_escape_classes(data):
    """exception classes other than the documented one that a component parser raises for a value of ``data``"""
    from packaging import licenses, requirements, specifiers, utils, version
    out = set()

    def probe(fn, xs, caught):
        for x in xs if isinstance(xs, list) else [xs]:
            if isinstance(x, str):
                try:
                    fn(x)
                except caught:
                    pass
                except Exception as e:
                    out.add(type(e).__name__)
    probe(lambda s: utils.canonicalize_name(s, validate=True), data.get("name"), utils.InvalidName)
    probe(lambda s: utils.canonicalize_name(s, validate=True), data.get("provides_extra"), utils.InvalidName)
    probe(version.parse, data.get("version"), version.InvalidVersion)
    probe(specifiers.SpecifierSet, data.get("requires_python"), specifiers.InvalidSpecifier)
    probe(requirements.Requirement, data.get("requires_dist"), requirements.InvalidRequirement)
    probe(licenses.canonicalize_license_expression, data.get("license_expression"), ValueError)
    return out


def _raised(v):
    import re
    m = re.search(r"raises (\w+)", v.get("detail") or "")
    return m.group(1) if m else None


@matcher("c17_inherited_component_escape")
def _c17_inherited_component_escape(v, m):
    """a component parser raises an undocumented exception for one of the values (C11 defects of that component)"""
    return _raised(v) is not None and _raised(v) in _c17_escape_classes(_c17_data(v))


@matcher("c17_from_email_unparsed_first")
def _c17_from_email_unparsed_first(v, m):
    """from_email raises the group of unparsed keys alone, without validating the parsed fields"""
    from packaging import metadata as M
    from gen import metadata as G
    from props.C18 import expected_parse
    doc = v["input"]["doc"]
    exp = expected_parse(doc)
    if exp is None or not exp[1]:
        return False
    try:
        M.Metadata.from_email(G.build_doc(doc))
    except M.ExceptionGroup as g:
        return {getattr(e, "field", "") for e in g.exceptions} == set(exp[1])
    except Exception:
        return False
    return False


def _c18_text(v):
    from gen import metadata as G
    return G.build_doc(v["input"]["doc"])


@matcher("c18_str_surrogate_header")
def _c18_str_surrogate_header(v, m):
    """str input with a surrogate code point in a header value: email.header raises UnicodeEncodeError"""
    if _raised(v) != "UnicodeEncodeError":
        return False
    text = _c18_text(v)
    if not isinstance(text, str):
        return False
    head = text.split("\n\n", 1)[0].split("\r\n\r\n", 1)[0]
    return any(0xD800 <= ord(c) <= 0xDFFF for c in head)


@matcher("arbitrary_text_not_a_version")
def arbitrary_text_not_a_version(violation, m):
    """`===S` with S not a version, default pre-release setting: `.prereleases` parses S"""
    from packaging.version import InvalidVersion, Version
    law, inp = violation["law"], violation["input"]
    if law == "in_operator_final_candidate":
        if inp.get("op") != "===":
            return False
        text = inp["raw"]
    elif law == "contains_vs_spec_strings" and inp.get("mode") == "in":
        cl = inp["clause"].strip()
        if not cl.startswith("==="):
            return False
        text = cl[3:].strip()
    else:
        return False
    try:
        Version(text)
    except InvalidVersion:
        return True
    return False


@matcher("c11_email_surrogate")
def _c11_email_surrogate(v, m):
    """str input containing a surrogate code point, given to parse_email / Metadata.from_email, raising UnicodeEncodeError"""
    i = v["input"]
    return (i["entry"] in ("parse_email", "Metadata.from_email") and isinstance(i["input"], str)
            and any(0xD800 <= ord(c) <= 0xDFFF for c in i["input"]) and "UnicodeEncodeError" in str(v.get("detail", "")))


@matcher("c15_colliding_inputs")
def _c15_colliding_inputs(v, m):
    """no_repeats fails because an input without repeats collides with a tag the function adds itself: an ABI that is a
    differently-cased `abi3`/`none`, a platform `any` (compatible_tags), or an interpreter inside the py range"""
    inp = v["input"]
    if v.get("law") != "no_repeats" or "repeats" not in (v.get("detail") or ""):
        return False
    which, ver, interp = inp["which"], tuple(inp["ver"]), inp.get("interp")
    odd_abi = any(a.lower() in ("abi3", "none") and a not in ("abi3", "none") for a in inp["abis"])
    if which in ("cpython", "generic"):
        return odd_abi
    if which == "compatible":
        rng_ = [f"py{ver[0]}"] if len(ver) == 1 else [f"py{ver[0]}{ver[1]}", f"py{ver[0]}"] + [f"py{ver[0]}{z}" for z in range(ver[1])]
        return "any" in [p.lower() for p in inp["plats"]] or bool(interp and interp.lower() in rng_)
    return False
