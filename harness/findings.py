"""Matchers for known_findings.json.  A finding suppresses only the violations its matcher accepts."""
from __future__ import annotations

import json


def _canon(x):
    return json.dumps(x, sort_keys=True, default=str)


MATCHERS = {}


def matcher(name):
    def deco(f):
        MATCHERS[name] = f
        return f
    return deco


def match(known, violation):
    """first listed finding whose matcher accepts this violation record, else None"""
    for f in known:
        m = f.get("matcher", {"kind": "exact"})
        kind = m.get("kind", "exact")
        if kind == "exact":
            w = f.get("witness", {})
            if w.get("law") == violation.get("law") and _canon(w.get("input")) == _canon(violation.get("input")):
                return f
        elif kind == "class":
            fn = MATCHERS.get(m["name"])
            if fn is not None and (not m.get("law") or m["law"] == violation.get("law")):
                try:
                    if fn(violation, m):
                        return f
                except Exception:
                    pass
    return None


@matcher("equal_respelled_duplicate")
def _equal_respelled_duplicate(v, m):
    """a clause list holding two different strings that are equal as Specifier objects"""
    import core
    core.use_repo()
    from packaging.specifiers import Specifier
    cl = v["input"]["clauses"]
    sp = [Specifier(c) for c in cl]
    return any(cl[i].strip() != cl[j].strip() and sp[i] == sp[j] for i in range(len(cl)) for j in range(i))


@matcher("arbitrary_clause_then_comma_space")
def _arbitrary_clause_then_comma_space(v, m):
    """a requirement string in which an `===` clause is directly followed by a comma and then white space
    (the SPECIFIER token swallows the comma, the next clause is then not a continuation)"""
    import random
    import re
    from props.C08 import render
    s = render(random.Random(v["input"]["seed"]), v["input"]["st"], loose=True)
    return "rejected" in str(v.get("detail", "")) and re.search(r"===[^\s;)]*,[ \t]", s) is not None


@matcher("equal_respelled_duplicate_in_requirement")
def _equal_respelled_duplicate_in_requirement(v, m):
    w = dict(v); w["input"] = {"clauses": v["input"]["st"]["clauses"]}
    return _equal_respelled_duplicate(w, m)

# ---------------------------------------------------------------- C13
_CI_EXTRA = "İıſK"      # non-ASCII characters that IGNORECASE folds onto ASCII letters


@matcher("c13_validate_trailing_newline")
def _c13_validate_trailing_newline(v, m):
    """exactly: an (ASCII) valid name followed by one newline"""
    from props.C13 import ref_valid
    s = v["input"]["s"]
    return s.endswith("\n") and ref_valid(s[:-1])


@matcher("c13_validate_non_ascii_letter")
def _c13_validate_non_ascii_letter(v, m):
    """exactly: a name that is valid once U+0130/U+0131/U+017F/U+212A are read as letters (optionally followed by one
    newline, which the same anchor lets through)"""
    from props.C13 import ref_valid
    s = v["input"]["s"]
    if not any(c in _CI_EXTRA for c in s):
        return False
    t = "".join("a" if c in _CI_EXTRA else c for c in s)
    if t.endswith("\n"):
        t = t[:-1]
    return ref_valid(t)


def _c13_dd(s):
    from props.C13 import ref_normalized
    return len(s) >= 3 and s[1:3] == "--" and ref_normalized(s[0] + "-" + s[3:])


@matcher("c13_normalized_dashdash_after_first")
def _c13_normalized_dashdash_after_first(v, m):
    """exactly: c--rest where c-rest is a normalised name (the look-ahead is never evaluated right after the first character)"""
    return _c13_dd(v["input"]["s"])


@matcher("c13_normalized_trailing_newline")
def _c13_normalized_trailing_newline(v, m):
    """exactly: a string is_normalized_name accepts without the newline, followed by one newline"""
    from props.C13 import ref_normalized
    s = v["input"]["s"]
    return s.endswith("\n") and (ref_normalized(s[:-1]) or _c13_dd(s[:-1]))


# ---------------------------------------------------------------- C14
@matcher("c14_damage_kind")
def _c14_damage_kind(v, m):
    """exactly the wheel_rejects inputs of one damage kind (the kind names the class: every input of the kind is affected)"""
    return v["input"].get("damage") == m["damage"]


@matcher("numeric_component_beyond_int_str_limit")
def _beyond_int_limit(violation, m):
    """C02/C11/C12: the witness is a version with one numeric component longer than the running interpreter's
    ``sys.get_int_max_str_digits()`` (CPython >= 3.11; 0 means unlimited, then nothing matches)."""
    import sys

    lim = getattr(sys, "get_int_max_str_digits", lambda: 0)()
    inp = violation.get("input") or {}
    if not lim:
        return False
    if isinstance(inp.get("digits"), int):
        return inp["digits"] > lim
    s = inp.get("s")
    if isinstance(s, str):
        import re

        return any(len(r) > lim for r in re.findall(r"[0-9]+", s))
    return False

@matcher("ios_minor_above_9")
def _ios_minor_above_9(violation, m):
    """C16: ios_platforms enumerates the minors of previous major series only up to 9, so the tags of a
    (hypothetical) iOS X.10+ are not contained in those of a later major series."""
    inp = violation.get("input") or {}
    return (violation.get("law") == "newer_superset" and inp.get("family") == "ios"
            and isinstance(inp.get("v"), list) and len(inp["v"]) == 2 and inp["v"][1] > 9)
