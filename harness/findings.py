"""Matchers for known_findings.json.  A finding suppresses only the violations its matcher accepts."""
from __future__ import annotations

import json


def _canon(x):
    return json.dumps(x, sort_keys=True, default=str)


MATCHERS = {}


def matcher(name):
    def deco(f):
        MATCHERS[name] = f
        return f
    return deco


def match(known, violation):
    """first listed finding whose matcher accepts this violation record, else None"""
    for f in known:
        m = f.get("matcher", {"kind": "exact"})
        kind = m.get("kind", "exact")
        if kind == "exact":
            w = f.get("witness", {})
            if w.get("law") == violation.get("law") and _canon(w.get("input")) == _canon(violation.get("input")):
                return f
        elif kind == "class":
            fn = MATCHERS.get(m["name"])
            if fn is not None and (not m.get("law") or m["law"] == violation.get("law")):
                try:
                    if fn(violation, m):
                        return f
                except Exception:
                    pass
    return None


@matcher("ios_minor_above_9")
def _ios_minor_above_9(violation, m):
    """C16: ios_platforms enumerates the minors of previous major series only up to 9, so the tags of a
    (hypothetical) iOS X.10+ are not contained in those of a later major series."""
    inp = violation.get("input") or {}
    return (violation.get("law") == "newer_superset" and inp.get("family") == "ios"
            and isinstance(inp.get("v"), list) and len(inp["v"]) == 2 and inp["v"][1] > 9)
