"""Matchers for known_findings.json.  A finding suppresses only the violations its matcher accepts."""
from __future__ import annotations

import json


def _canon(x):
    return json.dumps(x, sort_keys=True, default=str)


MATCHERS = {}


def matcher(name):
    def deco(f):
        MATCHERS[name] = f
        return f
    return deco


def match(known, violation):
    """first listed finding whose matcher accepts this violation record, else None"""
    for f in known:
        m = f.get("matcher", {"kind": "exact"})
        kind = m.get("kind", "exact")
        if kind == "exact":
            w = f.get("witness", {})
            if w.get("law") == violation.get("law") and _canon(w.get("input")) == _canon(violation.get("input")):
                return f
        elif kind == "class":
            fn = MATCHERS.get(m["name"])
            if fn is not None and (not m.get("law") or m["law"] == violation.get("law")):
                try:
                    if fn(violation, m):
                        return f
                except Exception:
                    pass
    return None


# ---------------------------------------------------------------- C05 / C06 (SpecifierSet)
def _c05_all_clauses(inp):
    out = []
    for k in ("clauses", "clauses2", "a", "b", "c"):
        v = inp.get(k)
        if isinstance(v, list):
            out += [x for x in v if isinstance(x, str)]
    return out


@matcher("c05_equal_members_match_differently")
def c05_equal_members_match_differently(violation, m):
    """the input holds two clauses with operator m['operator'] that are equal as Specifier objects (so a set keeps
    only the first inserted one) although they disagree on one of the candidates"""
    from packaging.specifiers import Specifier
    inp = violation["input"]
    cl = [Specifier(c) for c in _c05_all_clauses(inp)]
    cands = inp.get("cands") or []
    for i, x in enumerate(cl):
        for y in cl[i + 1:]:
            if x.operator == y.operator == m["operator"] and x == y and str(x) != str(y):
                if any(x.contains(c, prereleases=True) != y.contains(c, prereleases=True) for c in cands):
                    return True
    return False


@matcher("c05_comma_in_arbitrary")
def c05_comma_in_arbitrary(violation, m):
    """str round trip of a set holding an `===` member whose text contains a comma"""
    from packaging.specifiers import Specifier
    for c in _c05_all_clauses(violation["input"]):
        s = Specifier(c)
        if s.operator == "===" and "," in s.version:
            return True
    return False


@matcher("c06_spec_filter_override_false")
def c06_spec_filter_override_false(violation, m):
    """Specifier.filter on a specifier whose stored override is an explicit False, called without argument:
    the law holds for every other (override, argument) combination of the same input"""
    inp = violation["input"]
    if inp.get("how") != "spec":
        return False
    combos = inp.get("combos") or []
    if [False, None] not in combos:
        return False
    from props.C06 import PROP
    rest = dict(inp)
    rest["combos"] = [c for c in combos if c != [False, None]]
    return PROP.check_law("filter_contains", rest)[0]


@matcher("numeric_component_beyond_int_str_limit")
def _beyond_int_limit(violation, m):
    """C02/C11/C12: the witness is a version with one numeric component longer than the running interpreter's
    ``sys.get_int_max_str_digits()`` (CPython >= 3.11; 0 means unlimited, then nothing matches)."""
    import sys

    lim = getattr(sys, "get_int_max_str_digits", lambda: 0)()
    inp = violation.get("input") or {}
    if not lim:
        return False
    if isinstance(inp.get("digits"), int):
        return inp["digits"] > lim
    s = inp.get("s")
    if isinstance(s, str):
        import re

        return any(len(r) > lim for r in re.findall(r"[0-9]+", s))
    return False
