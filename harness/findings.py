"""Matchers for known_findings.json.  A finding suppresses only the violations its matcher accepts."""
from __future__ import annotations

import json


def _canon(x):
    return json.dumps(x, sort_keys=True, default=str)


MATCHERS = {}


def matcher(name):
    def deco(f):
        MATCHERS[name] = f
        return f
    return deco


def match(known, violation):
    """first listed finding whose matcher accepts this violation record, else None"""
    for f in known:
        m = f.get("matcher", {"kind": "exact"})
        kind = m.get("kind", "exact")
        if kind == "exact":
            w = f.get("witness", {})
            if w.get("law") == violation.get("law") and _canon(w.get("input")) == _canon(violation.get("input")):
                return f
        elif kind == "class":
            fn = MATCHERS.get(m["name"])
            if fn is not None and (not m.get("law") or m["law"] == violation.get("law")):
                try:
                    if fn(violation, m):
                        return f
                except Exception:
                    pass
    return None


@matcher("numeric_component_beyond_int_str_limit")
def _beyond_int_limit(violation, m):
    """C02/C11/C12: the witness is a version with one numeric component longer than the running interpreter's
    ``sys.get_int_max_str_digits()`` (CPython >= 3.11; 0 means unlimited, then nothing matches)."""
    import sys

    lim = getattr(sys, "get_int_max_str_digits", lambda: 0)()
    inp = violation.get("input") or {}
    if not lim:
        return False
    if isinstance(inp.get("digits"), int):
        return inp["digits"] > lim
    s = inp.get("s")
    if isinstance(s, str):
        import re

        return any(len(r) > lim for r in re.findall(r"[0-9]+", s))
    return False
