"""Matchers for known_findings.json.  A finding suppresses only the violations its matcher accepts."""
from __future__ import annotations

import json


def _canon(x):
    return json.dumps(x, sort_keys=True, default=str)


MATCHERS = {}


def matcher(name):
    def deco(f):
        MATCHERS[name] = f
        return f
    return deco


def match(known, violation):
    """first listed finding whose matcher accepts this violation record, else None"""
    for f in known:
        m = f.get("matcher", {"kind": "exact"})
        kind = m.get("kind", "exact")
        if kind == "exact":
            w = f.get("witness", {})
            if w.get("law") == violation.get("law") and _canon(w.get("input")) == _canon(violation.get("input")):
                return f
        elif kind == "class":
            fn = MATCHERS.get(m["name"])
            if fn is not None and (not m.get("law") or m["law"] == violation.get("law")):
                try:
                    if fn(violation, m):
                        return f
                except Exception:
                    pass
    return None


# --------------------------------------------------------------------------- C17 / C18 (metadata.py)
def _c17_data(v):
    d = v["input"]["data"]
    return dict((k, x) for k, x in d) if isinstance(d, list) else d


def _c17_escape_classes(data):
    """exception classes other than the documented one that a component parser raises for a value of ``data``"""
    from packaging import licenses, requirements, specifiers, utils, version
    out = set()

    def probe(fn, xs, caught):
        for x in xs if isinstance(xs, list) else [xs]:
            if isinstance(x, str):
                try:
                    fn(x)
                except caught:
                    pass
                except Exception as e:
                    out.add(type(e).__name__)
    probe(lambda s: utils.canonicalize_name(s, validate=True), data.get("name"), utils.InvalidName)
    probe(lambda s: utils.canonicalize_name(s, validate=True), data.get("provides_extra"), utils.InvalidName)
    probe(version.parse, data.get("version"), version.InvalidVersion)
    probe(specifiers.SpecifierSet, data.get("requires_python"), specifiers.InvalidSpecifier)
    probe(requirements.Requirement, data.get("requires_dist"), requirements.InvalidRequirement)
    probe(licenses.canonicalize_license_expression, data.get("license_expression"), ValueError)
    return out


def _raised(v):
    import re
    m = re.search(r"raises (\w+)", v.get("detail") or "")
    return m.group(1) if m else None


@matcher("c17_inherited_component_escape")
def _c17_inherited_component_escape(v, m):
    """a component parser raises an undocumented exception for one of the values (C11 defects of that component)"""
    return _raised(v) is not None and _raised(v) in _c17_escape_classes(_c17_data(v))


@matcher("c17_from_email_unparsed_first")
def _c17_from_email_unparsed_first(v, m):
    """from_email raises the group of unparsed keys alone, without validating the parsed fields"""
    from packaging import metadata as M
    from gen import metadata as G
    from props.C18 import expected_parse
    doc = v["input"]["doc"]
    exp = expected_parse(doc)
    if exp is None or not exp[1]:
        return False
    try:
        M.Metadata.from_email(G.build_doc(doc))
    except M.ExceptionGroup as g:
        return {getattr(e, "field", "") for e in g.exceptions} == set(exp[1])
    except Exception:
        return False
    return False


def _c18_text(v):
    from gen import metadata as G
    return G.build_doc(v["input"]["doc"])


@matcher("c18_str_surrogate_header")
def _c18_str_surrogate_header(v, m):
    """str input with a surrogate code point in a header value: email.header raises UnicodeEncodeError"""
    if _raised(v) != "UnicodeEncodeError":
        return False
    text = _c18_text(v)
    if not isinstance(text, str):
        return False
    head = text.split("\n\n", 1)[0].split("\r\n\r\n", 1)[0]
    return any(0xD800 <= ord(c) <= 0xDFFF for c in head)
