"""Matchers for known_findings.json.  A finding suppresses only the violations its matcher accepts."""
from __future__ import annotations

import json


def _canon(x):
    return json.dumps(x, sort_keys=True, default=str)


MATCHERS = {}


def matcher(name):
    def deco(f):
        MATCHERS[name] = f
        return f
    return deco


def match(known, violation):
    """first listed finding whose matcher accepts this violation record, else None"""
    for f in known:
        m = f.get("matcher", {"kind": "exact"})
        kind = m.get("kind", "exact")
        if kind == "exact":
            w = f.get("witness", {})
            if w.get("law") == violation.get("law") and _canon(w.get("input")) == _canon(violation.get("input")):
                return f
        elif kind == "class":
            fn = MATCHERS.get(m["name"])
            if fn is not None and (not m.get("law") or m["law"] == violation.get("law")):
                try:
                    if fn(violation, m):
                        return f
                except Exception:
                    pass
    return None


# ---------------------------------------------------------------- C05 / C06 (SpecifierSet)
def _c05_all_clauses(inp):
    out = []
    for k in ("clauses", "clauses2", "a", "b", "c"):
        v = inp.get(k)
        if isinstance(v, list):
            out += [x for x in v if isinstance(x, str)]
    return out


@matcher("c05_equal_members_match_differently")
def c05_equal_members_match_differently(violation, m):
    """the input holds two clauses with operator m['operator'] that are equal as Specifier objects (so a set keeps
    only the first inserted one) although they disagree on one of the candidates"""
    from packaging.specifiers import Specifier
    inp = violation["input"]
    cl = [Specifier(c) for c in _c05_all_clauses(inp)]
    cands = inp.get("cands") or []
    for i, x in enumerate(cl):
        for y in cl[i + 1:]:
            if x.operator == y.operator == m["operator"] and x == y and str(x) != str(y):
                if any(x.contains(c, prereleases=True) != y.contains(c, prereleases=True) for c in cands):
                    return True
    return False


@matcher("c05_comma_in_arbitrary")
def c05_comma_in_arbitrary(violation, m):
    """str round trip of a set holding an `===` member whose text contains a comma"""
    from packaging.specifiers import Specifier
    for c in _c05_all_clauses(violation["input"]):
        s = Specifier(c)
        if s.operator == "===" and "," in s.version:
            return True
    return False


@matcher("c06_spec_filter_override_false")
def c06_spec_filter_override_false(violation, m):
    """Specifier.filter on a specifier whose stored override is an explicit False, called without argument:
    the law holds for every other (override, argument) combination of the same input"""
    inp = violation["input"]
    if inp.get("how") != "spec":
        return False
    combos = inp.get("combos") or []
    if [False, None] not in combos:
        return False
    from props.C06 import PROP
    rest = dict(inp)
    rest["combos"] = [c for c in combos if c != [False, None]]
    return PROP.check_law("filter_contains", rest)[0]


# ---------------------------------------------------------------- C03 / C04
def _c03_tokens(text):
    """what ``_compare_compatible`` derives its prefix from: the raw text split at '!' and '.', with
    ``<digits><a|b|c|rc><digits>`` items split in two"""
    import re
    epoch, _, rest = text.rpartition("!")
    toks = [epoch or "0"]
    for item in rest.split("."):
        m = re.fullmatch(r"([0-9]+)((?:a|b|c|rc)[0-9]+)", item)
        toks.extend(m.groups() if m else [item])
    return toks


def _struct_of(text):
    """structure of a version text as the library reads it (used only to classify string-level witnesses)"""
    from packaging.version import Version
    v = Version(text)
    loc = None if v.local is None else [int(x) if x.isdigit() else x for x in v.local.split(".")]
    return {"epoch": v.epoch, "release": list(v.release), "pre": v.pre, "post": v.post, "dev": v.dev, "local": loc}


@matcher("compat_prefix_from_raw_spelling")
def compat_prefix_from_raw_spelling(violation, m):
    """`~=V` clauses whose *raw* text, cut at the first segment starting with dev/a/b/rc/post, minus its last item,
    is not V's epoch and release minus the last component (suffix spelled c/pre/preview/rev/r/upper case/`a.1`, or a
    leading `v`): only there does the prefix match of `_compare_compatible` use the wrong prefix."""
    import itertools
    from gen import specrel as R
    law, inp = violation["law"], violation["input"]
    if law == "contains_vs_admits":
        if inp.get("op") != "~=":
            return False
        from props import C03
        text = C03.spelled(inp)[0].strip()[2:].strip()
    elif law == "compat_is_ge_and_prefix" or (law in ("equal_candidates_same_answer", "in_operator_final_candidate")
                                              and inp.get("op") == "~="):
        if law == "in_operator_final_candidate":
            from props import C03
            text = C03.spelled(inp)[0].strip()[2:].strip()
        else:
            from props import C04
            text = C04.compat_text(inp)
    elif law == "contains_vs_spec_strings":
        if not inp["clause"].strip().startswith("~="):
            return False
        text = inp["clause"].strip()[2:].strip()
        inp = dict(inp, v=_struct_of(text))
    else:
        return False
    v = R.norm(inp["v"])
    toks = _c03_tokens(text)
    not_suffix = lambda s: not any(s.startswith(p) for p in ("dev", "a", "b", "rc", "post"))
    pref = list(itertools.takewhile(not_suffix, toks))[:-1]
    want = [v["epoch"]] + list(v["release"][:-1])
    good = all(t.isascii() and t.isdigit() for t in pref) and [int(t) for t in pref] == want
    return not good


@matcher("gt_rejects_local_of_another_version")
def gt_rejects_local_of_another_version(violation, m):
    """`>V` with a candidate that carries a local label, has V's release, lies above V and is *not* V itself plus
    a label (nor an excluded post-release): the local-version exclusion compares base versions only."""
    from gen import specrel as R
    law, inp = violation["law"], violation["input"]
    if law == "contains_vs_spec_strings":
        cl = inp["clause"].strip()
        if not cl.startswith(">") or cl.startswith(">="):
            return False
        inp = {"op": ">", "v": _struct_of(cl[1:]), "c": _struct_of(inp["cand"])}
    if law not in ("contains_vs_admits", "local_label_blind", "contains_vs_spec_strings",
                   "in_operator_final_candidate") or inp.get("op") != ">":
        return False
    v, c = R.norm(inp["v"]), R.norm(inp["c"])
    return c["local"] is not None and R.same_release(c, v) and R.admits(">", v, False, c)

@matcher("numeric_component_beyond_int_str_limit")
def _beyond_int_limit(violation, m):
    """C02/C11/C12: the witness is a version with one numeric component longer than the running interpreter's
    ``sys.get_int_max_str_digits()`` (CPython >= 3.11; 0 means unlimited, then nothing matches)."""
    import sys

    lim = getattr(sys, "get_int_max_str_digits", lambda: 0)()
    inp = violation.get("input") or {}
    if not lim:
        return False
    if isinstance(inp.get("digits"), int):
        return inp["digits"] > lim
    s = inp.get("s")
    if isinstance(s, str):
        import re

        return any(len(r) > lim for r in re.findall(r"[0-9]+", s))
    return False


@matcher("arbitrary_text_not_a_version")
def arbitrary_text_not_a_version(violation, m):
    """`===S` with S not a version, default pre-release setting: `.prereleases` parses S"""
    from packaging.version import InvalidVersion, Version
    law, inp = violation["law"], violation["input"]
    if law == "in_operator_final_candidate":
        if inp.get("op") != "===":
            return False
        text = inp["raw"]
    elif law == "contains_vs_spec_strings" and inp.get("mode") == "in":
        cl = inp["clause"].strip()
        if not cl.startswith("==="):
            return False
        text = cl[3:].strip()
    else:
        return False
    try:
        Version(text)
    except InvalidVersion:
        return True
    return False
