"""Matchers for known_findings.json.  A finding suppresses only the violations its matcher accepts."""
from __future__ import annotations

import json


def _canon(x):
    return json.dumps(x, sort_keys=True, default=str)


MATCHERS = {}


def matcher(name):
    def deco(f):
        MATCHERS[name] = f
        return f
    return deco


def match(known, violation):
    """first listed finding whose matcher accepts this violation record, else None"""
    for f in known:
        m = f.get("matcher", {"kind": "exact"})
        kind = m.get("kind", "exact")
        if kind == "exact":
            w = f.get("witness", {})
            if w.get("law") == violation.get("law") and _canon(w.get("input")) == _canon(violation.get("input")):
                return f
        elif kind == "class":
            fn = MATCHERS.get(m["name"])
            if fn is not None and (not m.get("law") or m["law"] == violation.get("law")):
                try:
                    if fn(violation, m):
                        return f
                except Exception:
                    pass
    return None
