"""Translator: regenerates lean/PkgModel/Generated/*.lean from the *current* source of $VERIF_REPO.

Regular expressions: parsed with CPython's own ``re._parser``; every atom's accepted code-point set is
*measured* from the ``re`` engine over all 0x110000 code points (so IGNORECASE-without-ASCII etc. is what
the engine does, not what I think it does); the common refinement with the spec-side kinds is the class
alphabet.  Tables are read from the imported module objects.
"""
from __future__ import annotations

import json
import os
import re
import sys
from pathlib import Path
from re import _compiler as C
from re import _parser as P

sys.path.insert(0, str(Path(__file__).resolve().parent))
import core
import kinds as K

GEN = core.LEAN / "PkgModel" / "Generated"
CACHE = core.ROOT / ".cache"


class Unsupported(Exception):
    pass


# ---------------------------------------------------------------- atoms
_atom_cache = None


def _load_cache():
    global _atom_cache
    if _atom_cache is None:
        _atom_cache = {}
        f = CACHE / f"atoms-{sys.version_info[0]}.{sys.version_info[1]}.{sys.version_info[2]}.json"
        if f.exists():
            try:
                _atom_cache = json.loads(f.read_text())
            except Exception:
                _atom_cache = {}
    return _atom_cache


def _save_cache():
    CACHE.mkdir(exist_ok=True)
    f = CACHE / f"atoms-{sys.version_info[0]}.{sys.version_info[1]}.{sys.version_info[2]}.json"
    f.write_text(json.dumps(_atom_cache))


def _ranges(cps):
    out = []
    start = prev = None
    for cp in cps:
        if start is None:
            start = prev = cp
        elif cp == prev + 1:
            prev = cp
        else:
            out.append([start, prev]); start = prev = cp
    if start is not None:
        out.append([start, prev])
    return out


def sweep(state, flags, op, av):
    """code points accepted by the one-atom pattern (op, av) under ``flags`` — measured, cached as ranges"""
    cache = _load_cache()
    key = repr((str(op), _av_repr(av), int(flags)))
    if key not in cache:
        sub = P.SubPattern(state, [(op, av)])
        c = C.compile(sub, flags)
        cache[key] = _ranges(cp for cp in range(0x110000) if c.fullmatch(chr(cp)))
        _save_cache()
    return key, cache[key]


def _av_repr(av):
    return repr(av)


# ---------------------------------------------------------------- IR
def walk(tree, state, flags, atoms):
    out = []
    for op, av in tree:
        if op in (P.LITERAL, P.NOT_LITERAL, P.IN, P.ANY):
            k, rs = sweep(state, flags, op, av)
            atoms[k] = rs
            out.append(("atom", k))
        elif op is P.MAX_REPEAT:
            lo, hi, body = av
            out.append(("rep", lo, hi, walk(body, state, flags, atoms)))
        elif op is P.SUBPATTERN:
            _g, add, dele, body = av
            if add or dele:
                raise Unsupported("inline flag group")
            out.append(("seq", walk(body, state, flags, atoms)))
        elif op is P.BRANCH:
            out.append(("alt", [walk(b, state, flags, atoms) for b in av[1]]))
        elif op is P.AT:
            if av is P.AT_BEGINNING:
                out.append(("bos",))
            elif av is P.AT_END:
                out.append(("eos",))
            elif av is P.AT_END_STRING:
                out.append(("eos_strict",))
            else:
                raise Unsupported(f"anchor {av}")
        elif op in (P.ASSERT, P.ASSERT_NOT):
            direction, body = av
            if direction != -1:
                raise Unsupported("look-ahead")
            out.append(("lookbehind", op is P.ASSERT, _literal_alts(body)))
        else:
            raise Unsupported(f"construct {op}")
    return out


def _literal_alts(body):
    """a look-behind body that is a literal string or an alternation of literal strings"""
    items = list(body)
    if len(items) == 1 and items[0][0] is P.BRANCH:
        return [_literal_seq(b) for b in items[0][1][1]]
    return [_literal_seq(items)]


def _literal_seq(items):
    s = ""
    for op, av in items:
        if op is not P.LITERAL:
            raise Unsupported("non-literal look-behind")
        s += chr(av)
    return s


def _flatten(ir):
    """inline nested ('seq', [...]) nodes at top level"""
    out = []
    for n in ir:
        if n[0] == "seq":
            out.extend(_flatten(n[1]))
        else:
            out.append(n)
    return out


def eliminate_lookbehinds(ir):
    """Specifier._regex shape:  bos ws* ALT(operator literals) ALT(lookbehind-guarded forms) ws* eos
    ->  ALT over operators o of  ws* o ALT(forms whose guard holds after the text  ws* o) ws*.
    The guard is decided on the operator text alone; this needs that the text before the operator
    (ws*) can never supply a character of a guard literal, which is checked on the measured atom sets."""
    if not any(_has_lb(n) for n in ir):
        return ir
    flat = _flatten(ir)
    # locate operator alternation and the guarded alternation
    try:
        i = next(i for i, n in enumerate(flat) if n[0] == "alt" and all(_is_lit_word(b) for b in n[1]))
        j = next(j for j, n in enumerate(flat) if j > i and n[0] == "alt" and all(b and _flatten(b)[0][0] == "lookbehind" for b in n[1]))
    except StopIteration:
        raise Unsupported("look-behind outside the operator/version shape")
    if j != i + 1:
        raise Unsupported("operator and guarded alternation not adjacent")
    before = flat[:i]
    if any(n[0] not in ("bos", "rep") for n in before):
        raise Unsupported("unexpected prefix before operator")
    ops = flat[i][1]
    forms = [_flatten(b) for b in flat[j][1]]
    guard_chars = set("".join(l for f in forms for l in f[0][2]))
    pre_atoms = [a for n in before if n[0] == "rep" for a in _atoms_of(n)]
    return ("lb-eliminated", before, ops, forms, flat[j + 1 :], guard_chars, pre_atoms)


def _has_lb(n):
    if n[0] == "lookbehind":
        return True
    if n[0] in ("seq",):
        return any(_has_lb(m) for m in n[1])
    if n[0] == "rep":
        return any(_has_lb(m) for m in n[3])
    if n[0] == "alt":
        return any(_has_lb(m) for b in n[1] for m in b)
    return False


def _atoms_of(n):
    if n[0] == "atom":
        return [n[1]]
    if n[0] == "seq":
        return [a for m in n[1] for a in _atoms_of(m)]
    if n[0] == "rep":
        return [a for m in n[3] for a in _atoms_of(m)]
    if n[0] == "alt":
        return [a for b in n[1] for m in b for a in _atoms_of(m)]
    return []


def _is_lit_word(branch):
    return all(n[0] == "atom" for n in _flatten(branch))


# ---------------------------------------------------------------- emit
class Emitter:
    def __init__(self, atoms, kind_fn):
        self.atoms = atoms
        akeys = sorted(atoms)
        # breakpoints: every range boundary of every atom + kind boundaries
        cuts = {0, 0x110000}
        for k in akeys:
            for lo, hi in atoms[k]:
                cuts.add(lo); cuts.add(hi + 1)
        prev = None
        for cp in range(0x110000 if False else 0x3000):   # kinds only vary in the low range
            kd = kind_fn(cp)
            if kd != prev:
                cuts.add(cp); prev = kd
        cuts.add(0x3000)
        cuts = sorted(cuts)
        member = {k: _member_fn(atoms[k]) for k in akeys}
        sig_to_class, self.reps, self.kinds, self.ranges = {}, [], [], []
        for lo, nxt in zip(cuts, cuts[1:]):
            sig = (tuple(member[k](lo) for k in akeys), kind_fn(lo))
            if sig not in sig_to_class:
                sig_to_class[sig] = len(self.reps)
                self.reps.append(lo)
                self.kinds.append(sig[1])
            c = sig_to_class[sig]
            if self.ranges and self.ranges[-1][2] == c and self.ranges[-1][1] == lo - 1:
                self.ranges[-1][1] = nxt - 1
            else:
                self.ranges.append([lo, nxt - 1, c])
        self.mask = {}
        for k in akeys:
            m = 0
            for i, r in enumerate(self.reps):
                if member[k](r):
                    m |= 1 << i
            self.mask[k] = m
        self.n = len(self.reps)

    def class_of(self, cp):
        for lo, hi, c in self.ranges:
            if lo <= cp <= hi:
                return c
        raise ValueError(cp)

    def seq(self, xs):
        xs = [x for x in xs if x != ".eps"]
        if not xs:
            return ".eps"
        if len(xs) == 1:
            return xs[0]
        return f"(.cat {xs[0]} {self.seq(xs[1:])})"

    def alt(self, xs):
        if not xs:
            return ".empty"
        if len(xs) == 1:
            return xs[0]
        return f"(.alt {xs[0]} {self.alt(xs[1:])})"

    def emit_list(self, items):
        return self.seq([self.emit(i) for i in items])

    def emit(self, node):
        tag = node[0]
        if tag == "atom":
            return f"(.cls {self.mask[node[1]]})"
        if tag == "seq":
            return self.emit_list(node[1])
        if tag == "alt":
            return self.alt([self.emit_list(b) for b in node[1]])
        if tag == "rep":
            _, lo, hi, body = node
            b = self.emit_list(body)
            parts = [b] * lo
            if hi == P.MAXREPEAT:
                parts.append(f"(.star {b})")
            else:
                if hi - lo > 8:
                    raise Unsupported("large bounded repeat")
                opt = ".eps"
                for _ in range(hi - lo):
                    opt = f"(.alt .eps {self.seq([b, opt])})"
                parts.append(opt)
            return self.seq(parts)
        if tag == "bos":
            return ".eps"
        if tag == "eos":
            return "$EOS$"
        if tag == "eos_strict":          # `\Z`: the end of the string only
            return ".eps"
        raise Unsupported(f"emit {tag}")


# --- x4: canonical order of an alternation of literal words ------------------------------------------------------
# Two literal alternatives of which neither is a prefix of the other can never both match at one position, so their
# relative order inside `(w1|w2|…)` is unobservable (for `match`, `search` and with any continuation: at every start
# position the alternatives that match form a chain under "is a prefix of", and the engine tries that chain in source
# order).  A maintainer reordering such alternatives therefore changes nothing; the translators emit the words in the
# *reference* order below whenever the source order is a permutation of it that keeps every prefix-related pair in
# the same relative order, and in source order otherwise (so a semantic reordering, e.g. `<|<=`, still shows).
REFERENCE_WORD_ORDER = {
    "specifier-operators": ["~=", "==", "!=", "<=", ">=", "<", ">", "==="],
    "pre-keywords": ["alpha", "beta", "preview", "pre", "a", "b", "c", "rc"],
    "post-keywords": ["post", "rev", "r"],
}


def canonical_word_order(words, reference):
    """-> the permutation (list of indices into `words`) to emit: reference order when provably equivalent, else identity"""
    ident = list(range(len(words)))
    if len(set(words)) != len(words) or sorted(words) != sorted(reference):
        return ident
    pos = {w: i for i, w in enumerate(words)}
    ref = {w: i for i, w in enumerate(reference)}
    for a in words:
        for b in words:
            if a != b and (a.startswith(b) or b.startswith(a)) and (pos[a] < pos[b]) != (ref[a] < ref[b]):
                return ident
    return [pos[w] for w in reference]


def _member_fn(ranges):
    import bisect
    los = [r[0] for r in ranges]
    def f(cp):
        i = bisect.bisect_right(los, cp) - 1
        return i >= 0 and ranges[i][0] <= cp <= ranges[i][1]
    return f


def translate_regex(name, pattern: re.Pattern, kind_fn, mode="search"):
    """-> (lean source, info).  mode 'search': pattern must be ^…$-anchored (``search``/``match`` on the whole string)."""
    tree = P.parse(pattern.pattern, pattern.flags)
    atoms = {}
    ir = walk(tree, tree.state, pattern.flags, atoms)
    ir2 = eliminate_lookbehinds(ir)
    em = Emitter(atoms, kind_fn)
    nl = em.class_of(10)
    eos = f"(.alt .eps (.cls {1 << nl}))"
    if isinstance(ir2, tuple) and ir2 and ir2[0] == "lb-eliminated":
        _, before, ops, forms, after, guard_chars, pre_atoms = ir2
        # precondition: nothing before the operator can supply a guard character
        for a in pre_atoms:
            for ch in guard_chars:
                if _member_fn(atoms[a])(ord(ch)):
                    raise Unsupported("text before the operator could satisfy a look-behind")
        alts = []
        for opb in ops:
            word = ""
            for n in _flatten(opb):
                rs = atoms[n[1]]
                if len(rs) != 1 or rs[0][0] != rs[0][1]:
                    raise Unsupported("operator atom is not a single character")
                word += chr(rs[0][0])
            ok_forms = []
            for f in forms:
                _, positive, lits = f[0]
                holds = any(word.endswith(l) for l in lits)
                if holds == positive:
                    ok_forms.append(f[1:])
            alts.append((word, em.seq([em.emit_list(before), em.emit_list(_flatten(opb)),
                                       em.alt([em.emit_list(f) for f in ok_forms]), em.emit_list(after)])))
        if len(alts) > 8:
            raise Unsupported("more than 8 operators")
        perm = canonical_word_order([w for w, _ in alts], REFERENCE_WORD_ORDER["specifier-operators"])      # x4
        alts = [alts[i] for i in perm]
        extra = "def nOps : Nat := %d\n" % len(alts)
        extra += "def opNames : List String := [%s]\n" % ", ".join('"%s"' % w for w, _ in alts)
        for i in range(8):
            body = alts[i][1] if i < len(alts) else ".empty"
            extra += f"def rxOp{i} : R := {body}\n".replace("$EOS$", eos)
        rx = em.alt([f"rxOp{i}" for i in range(len(alts))])
    else:
        flat = _flatten(ir2)
        if mode == "search":
            if not flat or flat[0][0] != "bos" or flat[-1][0] not in ("eos", "eos_strict"):
                raise Unsupported("pattern is not anchored with ^ and $")
        rx = em.emit_list(flat)
    if rx.count("$EOS$") > 8:
        raise Unsupported("too many end anchors")
    rx = rx.replace("$EOS$", eos)
    src = _lean_file(name, em, rx, pattern, extra if isinstance(ir2, tuple) else "")
    info = {"classes": em.n, "atoms": len(atoms), "ranges": len(em.ranges), "pattern_sha": _sha(pattern.pattern + str(pattern.flags))}
    return src, info, em


def _sha(s):
    import hashlib
    return hashlib.sha256(s.encode()).hexdigest()[:12]


def _lean_file(name, em, rx, pattern, extra=""):
    rngs = ", ".join(f"({lo}, {hi}, {c})" for lo, hi, c in em.ranges)
    return f"""import PkgModel.Rx
/-! GENERATED by harness/translate.py from the working tree — do not edit.
source flags: {int(pattern.flags)}  pattern sha: {_sha(pattern.pattern + str(pattern.flags))} -/
namespace Gen.{name}
open Rx Rx.R
def supported : Bool := true
def nClasses : Nat := {em.n}
def reps : List Nat := [{", ".join(map(str, em.reps))}]
def kinds : List Nat := [{", ".join(map(str, em.kinds))}]
def ranges : List (Nat × Nat × Nat) := [{rngs}]
{extra}def rx : R := {rx}
end Gen.{name}
"""


def _stub(name, why):
    return f"""import PkgModel.Rx
/-! GENERATED stub: the translator does not support this pattern ({why}). -/
namespace Gen.{name}
open Rx Rx.R
def supported : Bool := false
def nClasses : Nat := 1
def reps : List Nat := [0]
def kinds : List Nat := [0]
def ranges : List (Nat × Nat × Nat) := [(0, 1114111, 0)]
def rx : R := .empty
end Gen.{name}
"""


# ---------------------------------------------------------------- what to generate
REGEX_SOURCES = {}   # name -> thunk returning (compiled pattern, kind function)
TABLES = {}          # name -> thunk returning (lean source, info dict)


def regex_source(name):
    """register a regex to translate: the thunk runs after ``core.use_repo()`` and returns (pattern, kind_fn)"""
    def deco(f):
        REGEX_SOURCES[name] = f
        return f
    return deco


def table(name):
    """register a table generator: the thunk returns (lean source text, info dict)"""
    def deco(f):
        TABLES[name] = f
        return f
    return deco


def lean_str(s: str) -> str:
    """a Python str as a Lean `List Nat` literal of code points"""
    return "[" + ", ".join(str(ord(c)) for c in s) + "]"


def _load_translators():
    import importlib
    import pkgutil
    import translators
    for m in pkgutil.iter_modules(translators.__path__):
        importlib.import_module("translators." + m.name)


def _sources():
    core.use_repo()
    _load_translators()
    return REGEX_SOURCES


def write_if_changed(path: Path, text: str) -> bool:
    if path.exists() and path.read_text() == text:
        return False
    path.parent.mkdir(parents=True, exist_ok=True)
    path.write_text(text)
    return True


def generate(names):
    """regenerate the named outputs; returns {name: info}.  Never raises for an unsupported pattern:
    a stub is written and the error is reported in the info (the property's theorem then fails)."""
    out = {}
    srcs = _sources()
    for name in names:
        path = GEN / f"{name}.lean"
        try:
            if name in srcs:
                pat, kind_fn = srcs[name]()
                try:
                    src, info, _ = translate_regex(name, pat, kind_fn)
                except Unsupported as e:
                    src, info = _stub(name, str(e)), {"error": f"unsupported: {e}"}
            elif name in TABLES:
                src, info = TABLES[name]()
            else:
                raise KeyError(name)
        except Exception as e:
            if not path.exists():
                write_if_changed(path, _stub(name, "translator failure"))
            out[name] = {"error": f"{type(e).__name__}: {e}"}
            continue
        info["changed"] = write_if_changed(path, src)
        out[name] = info
    return out


def all_names():
    return list(_sources()) + list(TABLES)


def main(argv):
    names = all_names() if "--all" in argv else argv[1:]
    info = generate(names)
    print(json.dumps(info, indent=1))
    return 1 if any("error" in v for v in info.values()) else 0


if __name__ == "__main__":
    import translate as _self   # so that translators register into the importable module, not __main__
    sys.exit(_self.main(sys.argv))
