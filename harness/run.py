"""./check <Cxx> <quick|thorough> [--replay FILE]   — see DESIGN.md §4 for the verdict logic."""
from __future__ import annotations

import importlib
import json
import os
import random
import sys
import time
import traceback
from collections import Counter
from pathlib import Path

sys.path.insert(0, str(Path(__file__).resolve().parent))
import core  # noqa: E402

import warnings  # noqa: E402
warnings.filterwarnings("ignore", category=SyntaxWarning)      # ast.literal_eval on generated marker literals such as '\\h'
warnings.filterwarnings("ignore", category=DeprecationWarning)


class Prop:
    """Base class of a property module (harness/props/Cxx.py defines ``PROP = SomeProp()``)."""

    id = "C00"
    lean_modules: list[str] = []     # lake targets holding the property's theorems
    theorems: list[str] = []         # fully qualified names, audited with #print axioms
    generated: list[str] = []        # translator outputs this property depends on
    trusted: list[str] = []          # extra trusted-base lines for the evidence
    partial: list[str] = []          # what the theorems do not cover (shown in the evidence)
    rule = ""                        # how cases are generated / what is non-trivial
    budget = {"quick": (3000, 3000), "thorough": (60000, 60000)}   # (correspondence cases, law cases)

    # -- correspondence: model vs implementation
    def gen_cases(self, rng, n):
        return iter(())

    def real(self, op, args) -> str:
        raise NotImplementedError

    def nontrivial(self, op, args, out) -> bool:
        return not out.startswith("err")

    def judge(self, op, args, real, model, driver):
        """A model/implementation disagreement: is it a property violation on the real code?
        Return (law, input) if yes (it will be re-checked with check_law), else None."""
        return None

    # -- search: the property's laws evaluated on the real code only
    def gen_laws(self, rng, n):
        return iter(())

    def check_law(self, law, inp):
        """-> (ok, detail)"""
        raise NotImplementedError

    def branch(self, op, args, out) -> str:
        """coarse label of the branch a case exercised (for the measured distribution)"""
        return op + ":" + out.split(" ", 1)[0][:24]

    def complete(self, op, args):
        """recompute arguments that are derived from others (called on shrunk cases; default: none are)"""
        return args


def load_prop(pid) -> Prop:
    core.use_repo()
    mod = importlib.import_module(f"props.{pid}")
    return mod.PROP


# ---------------------------------------------------------------- shrinking
def shrink_str(s, still_bad, max_steps=400):
    """delete chunks of a string while ``still_bad`` holds"""
    steps = 0
    n = len(s)
    size = max(1, n // 2)
    while size >= 1 and steps < max_steps:
        i = 0
        changed = False
        while i < len(s) and steps < max_steps:
            cand = s[:i] + s[i + size :]
            steps += 1
            if cand != s and still_bad(cand):
                s = cand
                changed = True
            else:
                i += size
        if not changed:
            size //= 2
    return s


def shrink_json(v, still_bad, budget=[600]):
    """shrink strings / lists inside a JSON-like value while ``still_bad(value)`` holds"""
    if isinstance(v, str):
        return shrink_str(v, still_bad, max_steps=200)
    if isinstance(v, list):
        i = 0
        while i < len(v) and budget[0] > 0:           # drop elements
            cand = v[:i] + v[i + 1 :]
            budget[0] -= 1
            if still_bad(cand):
                v = cand
            else:
                i += 1
        for i in range(len(v)):                        # shrink elements in place
            def sb(x, i=i):
                return still_bad(v[:i] + [x] + v[i + 1 :])
            v = v[:i] + [shrink_json(v[i], sb, budget)] + v[i + 1 :]
        return v
    if isinstance(v, dict):
        for k in list(v):
            def sb(x, k=k):
                d = dict(v); d[k] = x
                return still_bad(d)
            v = dict(v); v[k] = shrink_json(v[k], sb, budget)
        return v
    return v


# ---------------------------------------------------------------- runner
class Run:
    def __init__(self, prop: Prop, tier: str, seed: int):
        self.prop, self.tier, self.seed = prop, tier, seed
        self.t0 = time.time()
        self.concrete = []      # {"law":..,"input":..,"detail":..,"origin":..}
        self.broken = []        # {"kind": "broken-theorem"|"broken-correspondence"|..., "name":.., "detail":..}
        self.cov = {}
        self.lines = []

    def say(self, s):
        print(s, flush=True)

    # 1+2+3: translator, build, audit
    def obligations(self):
        p = self.prop
        cov = self.cov
        if p.generated:
            import translate
            t0 = time.time()
            try:
                info = translate.generate(p.generated)
                cov["translator"] = info
                for name, meta in info.items():
                    if meta.get("error"):
                        self.broken.append({"kind": "broken-translation", "name": name, "detail": meta["error"]})
            except Exception as e:  # translator could not read the source at all
                self.broken.append({"kind": "broken-translation", "name": ",".join(p.generated),
                                    "detail": f"{type(e).__name__}: {e}"})
                cov["translator"] = {"error": traceback.format_exc()[-800:]}
            cov["translator_wall_s"] = round(time.time() - t0, 2)
        b = core.lake_build(["pkgdriver"])
        self.driver_ok = b.ok
        if not b.ok:
            self.broken.append({"kind": "broken-model-build", "name": ",".join(b.failed_modules), "detail": b.log[-1500:]})
        theorems = list(p.theorems)
        discharged = 0
        axioms = {}
        failed = []
        if p.lean_modules:
            b2 = core.lake_build(p.lean_modules)
            cov["build_wall_s"] = round(b.wall + b2.wall, 2)
            if not b2.ok:
                failed = b2.failed_modules
                cov["build_log_tail"] = b2.log[-3000:]
                for m in failed:
                    self.broken.append({"kind": "broken-theorem", "name": m, "detail": _first_error(b2.log)})
            else:
                axioms, problems = core.audit_axioms(p.lean_modules, theorems)
                for pr in problems:
                    self.broken.append({"kind": "broken-theorem", "name": pr.split(":")[0], "detail": pr})
                discharged = sum(1 for t in theorems if t in axioms and not any(pr.startswith(t + ":") for pr in problems))
        src_problems = core.audit_sources()
        for pr in src_problems:
            self.broken.append({"kind": "broken-theorem", "name": "source-audit", "detail": pr})
        cov["obligations"] = len(theorems)
        cov["discharged"] = discharged if not src_problems else 0
        cov["theorems"] = {t: axioms.get(t) for t in theorems}
        cov["failed_modules"] = failed
        cov["checker_cmd"] = "lake build " + " ".join(p.lean_modules) + " && lake env lean <#print axioms of each theorem>" + (
            " && lake env leanchecker " + " ".join(p.lean_modules) if self.tier == "thorough" else "")
        if self.tier == "thorough" and p.lean_modules and not failed:
            import subprocess
            t0 = time.time()
            r = subprocess.run(["lake", "env", "leanchecker", *p.lean_modules], cwd=core.LEAN, capture_output=True, text=True)
            cov["leanchecker"] = {"rc": r.returncode, "wall_s": round(time.time() - t0, 1), "tail": (r.stdout + r.stderr)[-300:]}
            if r.returncode != 0:
                self.broken.append({"kind": "broken-theorem", "name": "leanchecker", "detail": (r.stdout + r.stderr)[-500:]})

    # 4: correspondence
    def correspondence(self, n):
        p = self.prop
        rng = random.Random(self.seed * 1000003 + 1)
        cases = []
        corpus = core.ROOT / "harness" / "corpus" / f"{p.id}.jsonl"
        if corpus.exists():
            for line in corpus.read_text().splitlines():
                if line.strip():
                    c = json.loads(line)
                    cases.append((c["op"], c["args"]))
        ncorpus = len(cases)
        reals = {}
        shards = 1 if n < 20000 else min(14, os.cpu_count() or 1)
        if shards == 1:
            for c in p.gen_cases(rng, n):
                cases.append(c)
                if len(cases) >= n + ncorpus:
                    break
        else:
            import multiprocessing as mp
            with mp.get_context("fork").Pool(shards) as pool:
                parts = pool.map(_corr_shard, [(p.id, self.seed * 1000003 + 1 + 104729 * (k + 1), n // shards) for k in range(shards)])
            for part in parts:
                for op, args, r in part:
                    reals[len(cases)] = r
                    cases.append((op, args))
        if not cases:
            self.cov["correspondence"] = {"cases": 0}
            return
        lines = ["\t".join([op, *args]) for op, args in cases]
        try:
            model = core.batch_oneshot(lines)
        except Exception as e:
            self.broken.append({"kind": "broken-correspondence", "name": "driver", "detail": str(e)})
            return
        dist = Counter()
        distinct = set()
        mismatches = []
        samples = []
        for idx, ((op, args), line, m) in enumerate(zip(cases, lines, model)):
            if idx in reals:
                r = reals[idx]
            else:
                try:
                    with time_limit():
                        r = p.real(op, args)
                except _Timeout:
                    r = f"raw Timeout(no answer within {CALL_LIMIT:.0f} s)"
                except Exception as e:  # the harness glue itself failed: never a verdict, but never silent
                    r = "harness-error " + type(e).__name__ + ": " + str(e)[:120]
            if r == core.RESOURCE_LIMIT:
                dist["resource-limit (not compared)"] += 1
                continue
            dist[p.branch(op, args, r)] += 1
            if p.nontrivial(op, args, r):
                distinct.add(line)
            if r != m:
                mismatches.append((op, args, r, m))
            elif len(samples) < 6 and rng.random() < 0.01:
                samples.append({"op": op, "args": [core.dec(a) if _is_atom(a) else a for a in args], "both": r})
        if not samples and cases:
            op, args = cases[-1]
            samples.append({"op": op, "args": [core.dec(a) if _is_atom(a) else a for a in args], "both": model[-1]})
        self.cov["correspondence"] = {
            "cases": len(cases), "corpus": ncorpus, "distinct_nontrivial": len(distinct),
            "mismatches": len(mismatches), "distribution": dict(dist.most_common(getattr(p, "dist_limit", 60))),
        }
        self.cov["samples"] = samples
        if mismatches:
            drv = core.Driver()
            try:
                seen = set()
                for op, args, r, m in mismatches[:40]:
                    args2 = self._shrink_case(drv, op, args)
                    key = (op, tuple(args2))
                    if key in seen:
                        continue
                    seen.add(key)
                    try:
                        r2 = p.real(op, args2)
                    except Exception as e:  # the harness glue itself failed on the changed tree: a broken tie, not a crash
                        r2 = "harness-error " + type(e).__name__ + ": " + str(e)[:120]
                    m2 = drv.ask("\t".join([op, *args2]))
                    verdict = None
                    try:
                        verdict = p.judge(op, args2, r2, m2, drv)
                    except Exception:
                        verdict = None
                    if verdict is not None:
                        law, inp = verdict
                        try:
                            ok, detail = p.check_law(law, inp)
                        except Exception as e:  # the law does not apply to this input: stays a broken correspondence
                            ok, detail = True, "law not applicable: " + type(e).__name__
                        if not ok:
                            self.concrete.append({"law": law, "input": inp, "detail": detail,
                                                  "origin": {"correspondence": op, "args": args2, "real": r2, "model": m2}})
                            continue
                    self.broken.append({"kind": "broken-correspondence", "name": op,
                                        "detail": {"op": op, "args": args2,
                                                   "args_text": [core.dec(a) if _is_atom(a) else a for a in args2],
                                                   "real": r2, "model": m2}})
            finally:
                drv.close()

    def _shrink_case(self, drv, op, args):
        p = self.prop
        args = list(args)

        def bad(a):
            try:
                a = p.complete(op, a)
                return p.real(op, a) != drv.ask("\t".join([op, *a]))
            except Exception:
                return False
        for i, a in enumerate(args):
            if not _is_atom(a) or a in ("~", "-"):
                continue
            s = core.dec(a)
            def sb(x, i=i):
                return bad(args[:i] + [core.enc(x)] + args[i + 1 :])
            args[i] = core.enc(shrink_str(s, sb, max_steps=150))
        return p.complete(op, args)

    # 5: laws on the real code
    def laws(self, n):
        p = self.prop
        shards = 1 if n < 20000 else min(14, os.cpu_count() or 1)
        if shards == 1:
            count, per_law, fails, samples = _law_shard((p.id, self.seed * 1000003 + 2, n))
        else:
            import multiprocessing as mp
            with mp.get_context("fork").Pool(shards) as pool:
                parts = pool.map(_law_shard, [(p.id, self.seed * 1000003 + 2 + 7919 * (k + 1), n // shards) for k in range(shards)])
            count = sum(x[0] for x in parts)
            per_law = Counter()
            fails, samples = [], []
            for x in parts:
                per_law.update(x[1]); fails += x[2]; samples += x[3][:1]
        self.cov["laws"] = {"evaluated": count, "per_law": dict(per_law), "failures": len(fails)}
        self.cov.setdefault("samples", []).extend(samples)
        seen = set()
        for law, inp, detail in fails[:60]:
            def sb(x, law=law):
                try:
                    return not p.check_law(law, x)[0]
                except Exception:
                    return False
            try:
                inp2 = shrink_json(inp, sb, [400])
                ok, detail2 = p.check_law(law, inp2)
                if ok:
                    inp2, detail2 = inp, detail
            except Exception:
                inp2, detail2 = inp, detail
            key = json.dumps([law, inp2], sort_keys=True, default=str)
            if key in seen:
                continue
            seen.add(key)
            self.concrete.append({"law": law, "input": inp2, "detail": detail2, "origin": "laws"})

    # 6+7: verdict, evidence
    def finish(self):
        p = self.prop
        import findings as F
        listed = [f for f in core.load_findings() if f["property"] == p.id]
        known = [f for f in listed if f.get("status") == "known"]
        out_lines = []
        hit = set()
        unlisted = []
        for v in self.concrete:
            f = F.match(known, v)
            if f is not None:
                hit.add(f["id"])
            else:
                unlisted.append(v)
        # every listed known finding is replayed explicitly (so the line appears on every run)
        for f in known:
            w = f.get("witness")
            if w and f["id"] not in hit:
                try:
                    ok, _ = p.check_law(w["law"], w["input"])
                    if not ok:
                        hit.add(f["id"])
                except Exception:
                    pass
        for f in known:
            if f["id"] in hit:
                out_lines.append(f"KNOWN-FINDING: property={p.id} {f['what']}")
        core.REPLAYS.mkdir(exist_ok=True)
        for old in core.REPLAYS.glob(f"{p.id}-{self.seed}-*.json"):
            old.unlink()
        nrep = 0
        viol_lines = []
        for v in unlisted[:10]:
            path = core.REPLAYS / f"{p.id}-{self.seed}-{nrep}.json"
            nrep += 1
            path.write_text(json.dumps({"property": p.id, "kind": "input", "seed": self.seed, **v}, indent=1, default=str))
            viol_lines.append(f"VIOLATION property={p.id} replay={path}")
        if self.broken and not unlisted:
            path = core.REPLAYS / f"{p.id}-{self.seed}-{nrep}.json"
            path.write_text(json.dumps({"property": p.id, "kind": self.broken[0]["kind"], "seed": self.seed,
                                        "no_longer_checks": self.broken}, indent=1, default=str))
            viol_lines.append(f"VIOLATION property={p.id} replay={path} no-failing-input-found")
        elif self.broken:
            # concrete input found; still record what broke next to it
            path = core.REPLAYS / f"{p.id}-{self.seed}-broken.json"
            path.write_text(json.dumps({"property": p.id, "kind": self.broken[0]["kind"], "seed": self.seed,
                                        "no_longer_checks": self.broken}, indent=1, default=str))
        for l in out_lines + viol_lines:
            self.say(l)
        cov = self.cov
        corr = cov.get("correspondence", {})
        laws = cov.get("laws", {})
        cov["evaluations"] = corr.get("cases", 0) + laws.get("evaluated", 0)
        cov["distinct_nontrivial"] = corr.get("distinct_nontrivial", 0)
        cov["rule"] = p.rule
        cov["trusted_base"] = [
            "Lean 4.33.0 kernel; axioms allowed: propext, Classical.choice, Quot.sound (audited per theorem)",
            "spec files under lean/PkgModel/Spec as the reading of the property statement",
            "translator harness/translate.py (atoms measured from CPython's re over all code points)",
            "correspondence harness (differential testing model vs implementation; bounded by its generators)",
            *p.trusted,
        ]
        cov["not_covered_by_theorems"] = p.partial
        cov["known_findings_reproduced"] = sorted(hit)
        cov["broken"] = self.broken[:10]
        cov["explanation"] = (
            "theorems about the Lean model are checked by the kernel (obligations/discharged); the model is tied to "
            "the working tree by the translator (regenerated data) and by the correspondence run counted in evaluations; "
            "laws are the property's own statements evaluated on the real code as a search for failing inputs")
        ev = {
            "property_id": p.id, "tier": self.tier, "seed": self.seed, "level": "proof",
            "coverage": cov,
            "assumptions": cov["trusted_base"],
            "wall_s": round(time.time() - self.t0, 2),
            "violations": len(viol_lines),
        }
        core.EVIDENCE.mkdir(exist_ok=True)
        (core.EVIDENCE / f"{p.id}.json").write_text(json.dumps(ev, indent=1, default=str))
        return 1 if viol_lines else 0


class _Timeout(BaseException):
    """raised by the per-call timer (a BaseException, so that `except Exception` in a law cannot swallow it)"""


CALL_LIMIT = float(os.environ.get("VERIF_CALL_LIMIT", "60"))     # seconds one law evaluation / implementation call may take


class time_limit:
    """a change to the library that makes a call loop forever must end in a verdict, not in a hung check"""

    def __init__(self, seconds=None):
        self.seconds = CALL_LIMIT if seconds is None else seconds

    def _fire(self, signum, frame):
        raise _Timeout()

    def __enter__(self):
        import signal
        import threading
        self.active = threading.current_thread() is threading.main_thread() and hasattr(signal, "setitimer")
        if self.active:
            self.old = signal.signal(signal.SIGALRM, self._fire)
            signal.setitimer(signal.ITIMER_REAL, self.seconds)
        return self

    def __exit__(self, *exc):
        if self.active:
            import signal
            signal.setitimer(signal.ITIMER_REAL, 0)
            signal.signal(signal.SIGALRM, self.old)
        return False


def _law_shard(arg):
    """evaluate n generated law instances (own PRNG stream); top-level so that it can run in a worker process"""
    pid, seed, n = arg
    p = load_prop(pid)
    mod = sys.modules.get(type(p).__module__)
    if mod is not None and getattr(mod, "_drv", None) is not None and os.getpid() != getattr(mod, "_drv_pid", os.getpid()):
        mod._drv = None            # never share a driver pipe with the parent process
    rng = random.Random(seed)
    count = 0
    per_law = Counter()
    fails, samples = [], []
    for law, inp in p.gen_laws(rng, n):
        count += 1
        per_law[law] += 1
        try:
            with time_limit():
                ok, detail = p.check_law(law, inp)
        except _Timeout:
            ok, detail = False, f"the call did not return within {CALL_LIMIT:.0f} s"
        except Exception as e:
            ok, detail = False, "harness-error " + type(e).__name__ + ": " + str(e)[:200]
        if not ok:
            if len(fails) < 200:
                fails.append((law, inp, detail))
        elif len(samples) < 4 and rng.random() < 0.005:
            samples.append({"law": law, "input": inp})
        if count >= n:
            break
    return count, per_law, fails, samples


def _corr_shard(arg):
    """generate n correspondence cases and the implementation's answers (own PRNG stream)"""
    pid, seed, n = arg
    p = load_prop(pid)
    rng = random.Random(seed)
    out = []
    for c in p.gen_cases(rng, n):
        op, args = c
        try:
            with time_limit():
                r = p.real(op, args)
        except _Timeout:
            r = f"raw Timeout(no answer within {CALL_LIMIT:.0f} s)"
        except Exception as e:
            r = "harness-error " + type(e).__name__ + ": " + str(e)[:120]
        out.append((op, args, r))
        if len(out) >= n:
            break
    return out


def _is_atom(a):
    return a in ("~", "-") or (a != "" and all(c in "0123456789abcdef." for c in a))


def _first_error(log):
    import re
    m = re.search(r"error: .*", log)
    i = log.find("error:")
    return log[i : i + 600] if i >= 0 else log[-600:]


def replay(prop: Prop, path):
    rec = json.loads(Path(path).read_text())
    if rec.get("kind") == "input" and "law" in rec:
        ok, detail = prop.check_law(rec["law"], rec["input"])
        print(f"replay law={rec['law']} input={json.dumps(rec['input'], default=str)[:300]} -> {'holds' if ok else 'FAILS'}: {detail}")
        if not ok:
            print(f"VIOLATION property={prop.id} replay={path}")
            return 1
        return 0
    print("replay: no concrete input in this file; it names what no longer checks:")
    for b in rec.get("no_longer_checks", []):
        print("  ", b["kind"], b["name"], json.dumps(b["detail"], default=str)[:400])
    r = Run(prop, "quick", rec.get("seed", 0))
    r.obligations()
    if r.broken:
        print(f"VIOLATION property={prop.id} replay={path} no-failing-input-found")
        return 1
    print("all obligations check on the current tree")
    return 0


def _watchdog(pid, tier, seed):
    """whole-run limit: a generator or the glue hanging on a changed library (an input on which the library no longer
    terminates) ends the check with a verdict.  Far above what a run takes on the unchanged tree (quick < 3 min, thorough
    < 10 min even on a loaded machine)."""
    import threading
    limit = float(os.environ.get("VERIF_RUN_LIMIT", "1500" if tier == "quick" else "7200"))

    def fire():
        try:
            (core.ROOT / "replays").mkdir(exist_ok=True)
            path = core.ROOT / "replays" / f"{pid}-{seed}-timeout.json"
            path.write_text(json.dumps({"property": pid, "kind": "timeout", "seed": seed, "tier": tier,
                                        "no_longer_checks": [{"kind": "timeout", "name": "run",
                                                              "detail": f"the check did not finish within {limit:.0f} s"}]}, indent=1))
            print(f"VIOLATION property={pid} replay={path} no-failing-input-found", flush=True)
        finally:
            os._exit(1)
    t = threading.Timer(limit, fire)
    t.daemon = True
    t.start()


def main(argv):
    if len(argv) < 2:
        print(__doc__)
        return 2
    pid = argv[1]
    prop = load_prop(pid)
    if "--replay" in argv:
        return replay(prop, argv[argv.index("--replay") + 1])
    tier = argv[2] if len(argv) > 2 else os.environ.get("VERIF_TIER", "quick")
    seed = int(os.environ.get("VERIF_SEED", "0"))
    run = Run(prop, tier, seed)
    _watchdog(pid, tier, seed)
    ncorr, nlaw = prop.budget[tier]
    run.obligations()
    if run.driver_ok:
        run.correspondence(ncorr)
    # full search budget when something no longer checks
    run.laws(nlaw * (4 if run.broken else 1))
    return run.finish()


if __name__ == "__main__":
    try:
        sys.exit(main(sys.argv))
    except SystemExit:
        raise
    except BaseException:
        traceback.print_exc()
        sys.exit(2)
