"""Real-code glue shared by C05 and C06: set descriptors, iteration order, the implementation's answer
to every `set.*` / `spec.h.*` driver operation in protocol form."""
from __future__ import annotations

import core


class Domain(Exception):
    """raised by a law for an input outside its domain (never a failure)"""


def P():
    from packaging.specifiers import InvalidSpecifier, Specifier, SpecifierSet
    from packaging.version import InvalidVersion, Version
    return Specifier, SpecifierSet, InvalidSpecifier, Version, InvalidVersion


def ob(x):
    return "~" if x is None else ("1" if x else "0")


def unob(a):
    return {"~": None, "1": True, "0": False}[a]


def d_str(s):
    return "s:" + core.enc(s)


def d_list(members):
    """members: [(clause string, member override)]"""
    return "l:" + ",".join(core.enc(c) + ";" + ob(o) for c, o in members)


def build(src, ov):
    """descriptor -> SpecifierSet (raises what the constructors raise)"""
    Specifier, SpecifierSet, *_ = P()
    o = unob(ov)
    if src.startswith("s:"):
        return SpecifierSet(core.dec(src[2:]), prereleases=o)
    body = src[2:]
    ms = []
    if body:
        for part in body.split(","):
            c, mo = part.split(";")
            ms.append(Specifier(core.dec(c), prereleases=unob(mo)))
    return SpecifierSet(ms, prereleases=o)


def order_of(ss):
    """the implementation's iteration order, as the driver's `order` argument"""
    ms = list(ss._specs)
    if not ms:
        return "e"
    return ",".join(core.enc(str(m)) for m in ms)


def order_for(src, ov):
    try:
        return order_of(build(src, ov))
    except Exception:
        return "="


def check_order(ss, order):
    """the announced order must be a permutation of the member strings (it is advisory on the real side)"""
    if order == "=":
        return True
    if order == "e":
        return len(ss._specs) == 0
    want = sorted(core.dec(a) for a in order.split(","))
    return want == sorted(str(m) for m in ss._specs)


def enc_err(e):
    n = type(e).__name__
    return ("err " if n in ("InvalidSpecifier", "ValueError") else "raw ") + n


def enc_members(ss):
    ms = sorted(ss._specs, key=str)
    return ",".join(core.enc(str(m)) + ";" + ob(m._prereleases) for m in ms)


def member_roundtrips(m):
    """the member's own string is one clean clause that parses back to the same (operator, version)"""
    Specifier, _, InvalidSpecifier, *_ = P()
    t = str(m)
    if "," in t or t.strip() != t:
        return False
    try:
        return Specifier(t)._spec == m._spec
    except InvalidSpecifier:
        return False


def apply_hist(obj, hist, rng_calls=True):
    """assignments to .prereleases interleaved with reading calls ('c'), whose results are discarded"""
    if hist == "-":
        return
    for ch in hist:
        if ch == "c":
            try:
                _ = obj.prereleases
                _ = str(obj)
                _ = obj.contains("1.0a1")
                _ = list(obj.filter(["1.0", "1.0.dev1"]))
                _ = hash(obj)
            except Exception:
                pass
        else:
            obj.prereleases = unob(ch)


def index_list(inp, out):
    """positions (by identity) of the yielded objects in the input list, in yield order"""
    idx = []
    j = 0
    ok = True
    for o in out:
        k = j
        while k < len(inp) and inp[k] is not o:
            k += 1
        if k == len(inp):
            ok = False
            break
        idx.append(k)
        j = k + 1
    if ok:
        return ",".join(map(str, idx))
    # not an in-order subsequence of the very objects: report what it is instead
    pos = []
    for o in out:
        ks = [k for k, x in enumerate(inp) if x is o]
        pos.append(str(ks[0]) if ks else "new")
    return "unordered:" + ",".join(pos)


class _Str(str):
    """a str subclass instance (what e.g. a config library hands over)"""


def mk_items(cands, kinds):
    """candidate objects: kind 's' -> a fresh str object, 'v' -> Version, 'S' -> an instance of a str subclass,
    'V' -> an instance of a Version subclass"""
    _, _, _, Version, _ = P()

    class _Ver(Version):
        pass
    items = []
    for c, k in zip(cands, kinds):
        items.append(Version(c) if k == "v" else _Ver(c) if k == "V" else _Str(c) if k == "S" else "".join(list(c)))
    return items


def real(op, args, kinds=None):
    Specifier, SpecifierSet, InvalidSpecifier, Version, InvalidVersion = P()
    try:
        if op == "set.parse":
            ss = build(args[0], args[1])
            return f"ok {len(ss)} {enc_members(ss)} rt={core.encb(all(member_roundtrips(m) for m in ss._specs))}"
        if op == "set.str":
            ss = build(args[0], args[1])
            if not check_order(ss, args[2]):
                return "bad-perm"
            return "ok " + core.enc(str(ss))
        if op == "set.pre":
            ss = build(args[0], args[1])
            apply_hist(ss, args[2])
            if not check_order(ss, args[3]):
                return "bad-perm"
            return "ok " + ob(ss.prereleases)
        if op == "set.contains":
            ss = build(args[0], args[1])
            apply_hist(ss, args[2])
            if not check_order(ss, args[3]):
                return "bad-perm"
            cand = core.dec(args[4])
            if kinds == "v":
                cand = Version(cand)
            return core.encb(ss.contains(cand, prereleases=unob(args[5]), installed=unob(args[6])))
        if op == "set.and":
            a = build(args[0], args[1])
            b = build(args[2], args[3])
            if args[2].startswith("s:") and args[3] == "~" and kinds == "str-operand":
                r = a & core.dec(args[2][2:])
            else:
                r = a & b
            return f"ok {len(r)} {enc_members(r)} {ob(r._prereleases)}"
        if op == "set.andcontains":
            a = build(args[0], args[1])
            b = build(args[2], args[3])
            r = a & b
            if not check_order(r, args[4]):
                return "bad-perm"
            return core.encb(r.contains(core.dec(args[5]), prereleases=unob(args[6]), installed=unob(args[7])))
        if op == "set.eq":
            a = build(args[0], args[1])
            b = build(args[2], args[3])
            if kinds == "str-operand" and args[2].startswith("s:"):
                other = core.dec(args[2][2:])          # `set == "string"` goes through SpecifierSet(str(other))
                e = a == other
                ne = a != other
            else:
                e = a == b
                ne = a != b
            if ne == e:
                return "eq-ne-inconsistent"
            return core.encb(e) + core.encb((not e) or hash(a) == hash(b))
        if op == "set.filter":
            ss = build(args[0], args[1])
            apply_hist(ss, args[2])
            if not check_order(ss, args[3]):
                return "bad-perm"
            cands = [core.dec(a) for a in args[5].split(",")] if args[5] else []
            items = mk_items(cands, kinds or "s" * len(cands))
            out = list(ss.filter(items, prereleases=unob(args[4])))
            return "ok " + index_list(items, out)
        if op == "spec.h.pre":
            sp = Specifier(core.dec(args[0]), prereleases=unob(args[1]))
            apply_hist(sp, args[2])
            return core.encb(sp.prereleases)
        if op == "spec.h.contains":
            sp = Specifier(core.dec(args[0]), prereleases=unob(args[1]))
            apply_hist(sp, args[2])
            cand = core.dec(args[3])
            if kinds == "v":
                cand = Version(cand)
            return core.encb(sp.contains(cand, prereleases=unob(args[4])))
        if op == "spec.h.filter":
            sp = Specifier(core.dec(args[0]), prereleases=unob(args[1]))
            apply_hist(sp, args[2])
            cands = [core.dec(a) for a in args[4].split(",")] if args[4] else []
            items = mk_items(cands, kinds or "s" * len(cands))
            out = list(sp.filter(items, prereleases=unob(args[3])))
            return "ok " + index_list(items, out)
    except (InvalidSpecifier, InvalidVersion, ValueError) as e:
        return enc_err(e)
    except Exception as e:  # anything else the model does not predict
        return "raw " + type(e).__name__
    raise KeyError(op)


def kinds_for(args_cands, salt):
    """deterministic str/Version choice per candidate (the protocol does not carry it: the model is blind to it)"""
    import random
    r = random.Random(salt)
    return "".join(r.choice("sv") for _ in args_cands)
