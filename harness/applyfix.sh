#!/bin/sh
# applyfix.sh <diff> <msgfile> : apply one fix to /repo, run the unedited suite, commit with the given message
set -e
d=$(readlink -f "$1"); m=$(readlink -f "$2")
cd /repo
git diff --quiet || { echo "/repo dirty"; exit 2; }
git apply "$d"
out=$(/venv/bin/python -m pytest -q -p no:cacheprovider --timeout=900 2>&1 | tail -1)
echo "$out"
case "$out" in
  *failed*|*error*) echo "SUITE FAILS - reverting"; git checkout -- .; exit 1;;
esac
git commit -qa -F "$m"
git log --oneline -1
