"""History-insensitivity law on shared objects (used by C20, C05, C06, C07, C08).

A *program* is a list of steps over named objects of the public API.  Program B is program A with extra steps inserted that
the statement says cannot matter: read-only queries on the objects of A, and the construction / mutation of *other* objects
built from the same texts.  The answers of A's own steps must be the same in both runs.  Everything is JSON so that a failing
program replays and shrinks (the shrinker deletes steps; a step whose operands are gone answers `missing`, identically in
both runs).
"""
from __future__ import annotations

READ_ONLY = {"contains", "in", "pre", "str", "repr", "hash", "filter", "iter", "len", "eval", "eq"}


def template(rng, GV):
    """short programs around the library's lazily computed / shareable state: the pre-release policy a set derives from its
    members, members shared between a set and its creator, sets derived with `&`, the marker environment"""
    rel = [rng.randrange(0, 4), rng.randrange(0, 10)]
    base = ".".join(map(str, rel))
    prev = f"{rel[0]}.{rel[1] + 1}a1"
    cand_pre = rng.choice([f"{rel[0]}.{rel[1] + 2}a1", f"{rel[0] + 1}.0rc1", f"{rel[0]}.{rel[1] + 1}.dev0"])
    cand_fin = f"{rel[0]}.{rel[1] + 3}"
    t = rng.randrange(5)
    ov = lambda: rng.choice([None, None, True, False])
    if t == 0:        # a member changed through its setter after the set exists
        steps = [["spec", "s0", ">=" + base, None], ["spec", "s1", "<" + str(rel[0] + 5), None],
                 ["set_objs", "A", rng.choice([["s0"], ["s0", "s1"]]), None],
                 ["setpre", "s0", rng.choice([True, False])]]
    elif t == 1:      # `&` of a set that names a pre-release with one that does not, either way round
        a, b = [">=" + prev, "<" + str(rel[0] + 5)]
        if rng.random() < 0.5:
            a, b = b, a
        steps = [["set_str", "A", a, None], ["set_str", "B", b, None], ["and", "C", "A", "B"]]
        if rng.random() < 0.5:
            steps += [["and", "D", "C", "B"]]
    elif t == 2:      # a requirement's specifier set, and the same clause text used elsewhere
        text = rng.choice(["", ">=" + base, ">=" + base + ",<" + str(rel[0] + 5)])
        steps = [["req", "R", "name" + text], ["attr", "A", "R", "specifier"], ["set_str", "B", text, None]]
    elif t == 3:      # a marker evaluated with and without overrides
        var, val = rng.choice([("extra", "zzz"), ("os_name", "other")])
        mk = rng.choice([f'{var} == "{val}"', f'"{val}" == {var}', f'{var} != "{val}" or python_version < "1"'])
        steps = [["marker", "M", mk], ["eval", "M", {}], ["eval", "M", {var: val}], ["eval", "M", {}], ["eval", "M", {var: "q"}]]
        if rng.random() < 0.5:
            steps = [["req", "R", "name; " + mk], ["attr", "M", "R", "marker"]] + steps[1:]
        return steps
    else:             # overrides set and reset on the set itself
        steps = [["set_str", "A", ">=" + base, ov()], ["setpre", "A", rng.choice([True, False])], ["setpre", "A", None]]
    tgt = [st[1] for st in steps if st[0] in ("set_objs", "set_str", "and", "attr")]
    for _ in range(rng.randrange(2, 6)):
        n = rng.choice(tgt)
        q = rng.choice(["contains", "contains", "in", "pre", "filter"])
        if q == "contains":
            steps.append(["contains", n, rng.choice([cand_pre, cand_pre, cand_fin]), ov()])
        elif q == "in":
            steps.append(["in", n, rng.choice([cand_pre, cand_fin])])
        elif q == "filter":
            steps.append(["filter", n, [cand_pre, cand_fin][: rng.randrange(1, 3)], ov()])
        else:
            steps.append(["pre", n])
    return steps


def gen_program(rng, GS, GV, GM):
    if rng.random() < 0.5:
        return template(rng, GV)
    near = GV.struct(rng)
    names = []
    steps = []
    pre3 = lambda: rng.choice([None, None, None, True, False])

    def cl():
        c = GS.clause(rng, near=near, ws=False)
        if rng.random() < 0.35:
            v = dict(GV.neighbour(rng, near)); v["pre"] = [rng.choice(["a", "b", "rc"]), rng.randrange(3)]; v["local"] = None
            c = rng.choice([">=", "<", ">", "<=", "!="]) + GV.spell(rng, v)
        return c
    k = rng.randrange(1, 4)
    for i in range(k):
        steps.append(["spec", f"s{i}", cl(), pre3() if rng.random() < 0.3 else None]); names.append(f"s{i}")
    kind = rng.random()
    texts = [st[2] for st in steps]
    if kind < 0.4:
        steps.append(["set_objs", "A", [f"s{i}" for i in range(k)], pre3() if rng.random() < 0.3 else None])
    elif kind < 0.7:
        steps.append(["set_str", "A", ",".join(texts), pre3() if rng.random() < 0.3 else None])
    else:
        steps.append(["set_str", "A", ",".join(texts[:1]), None])
    steps.append(["set_str", "B", cl() if rng.random() < 0.8 else "", pre3() if rng.random() < 0.2 else None])
    names += ["A", "B"]
    if rng.random() < 0.6:
        a, b = rng.choice([("A", "B"), ("B", "A")])
        steps.append(["and", "C", a, b]); names.append("C")
    if rng.random() < 0.5:
        text = "name" + rng.choice(["", ",".join(texts), texts[0]])
        if rng.random() < 0.4:
            text += "; " + GM.marker(rng, 1)
        steps.append(["req", "R", text]); steps.append(["attr", "RS", "R", "specifier"]); names.append("RS")
        if ";" in text:
            steps.append(["attr", "RM", "R", "marker"])
    if rng.random() < 0.4:
        steps.append(["marker", "M", GM.marker(rng, 2)])
    # mutations through the public setters, then the observed queries
    for _ in range(rng.choice([0, 1, 1, 2])):
        members = [n for n in names if n.startswith("s")]
        tgt = rng.choice(members) if (members and rng.random() < 0.6) else rng.choice(names)
        steps.append(["setpre", tgt, rng.choice([True, True, False, None])])
    cands = []
    for _ in range(4):
        v = dict(GV.neighbour(rng, near))
        if rng.random() < 0.6:
            v["pre"] = [rng.choice(["a", "rc"]), rng.randrange(3)]
        cands.append(GV.spell(rng, v))
    for _ in range(rng.randrange(3, 7)):
        n = rng.choice(names + ["A", "A", "C", "C", "RS"])
        q = rng.choice(["contains", "contains", "contains", "pre", "pre", "filter", "str", "hash", "in", "in"])
        if q in ("contains",):
            steps.append(["contains", n, rng.choice(cands), pre3()])
        elif q == "in":
            steps.append(["in", n, rng.choice(cands)])
        elif q == "filter":
            steps.append(["filter", n, cands[:rng.randrange(1, 5)], pre3()])
        else:
            steps.append([q, n])
    for m in ("M", "RM"):
        if any(st[1] == m for st in steps):
            envs = [{}, {"extra": "x"}, {"os_name": "nt", "extra": "A_b"}, {"python_version": "2.7"}, {"extra": None}]
            for _ in range(rng.randrange(1, 4)):
                steps.append(["eval", m, rng.choice(envs)])
    return steps


def distract(rng, steps):
    """program B: A plus steps that must not matter; returns (steps_B, index map A -> B)"""
    out, idx = [], []
    defined = []
    markers_ = set()
    shadow = 0
    for st in steps:
        # before each step, maybe insert distractions
        for _ in range(rng.choice([0, 0, 1, 1, 2])):
            r = rng.random()
            if defined and r < 0.6:
                n = rng.choice(defined)
                q = rng.choice(["pre", "str", "hash", "contains", "filter", "iter", "eval", "repr", "len"])
                if n in markers_:
                    q = rng.choice(["eval", "eval", "eval", "str", "hash"])
                if q == "contains":
                    out.append(["contains", n, rng.choice(["1.0", "2.0a1", "1.0.dev0", "3.1"]), rng.choice([None, None, True, False])])
                elif q == "filter":
                    out.append(["filter", n, ["1.0", "2.0a1", "1.5rc1"], rng.choice([None, True, False])])
                elif q == "eval":
                    out.append(["eval", n, rng.choice([{}, {"extra": "zzz"}, {"os_name": "other", "python_full_version": "3.9.0+"}])])
                else:
                    out.append([q, n])
            else:
                # an unrelated object built from the same text as an earlier step, then mutated
                cons = [s for s in steps if s[0] in ("spec", "set_str", "req", "marker")]
                if cons:
                    c = list(rng.choice(cons)); shadow += 1
                    nm = f"zz{shadow}"
                    c[1] = nm
                    out.append(c)
                    if c[0] == "req":
                        out.append(["attr", nm + "s", nm, "specifier"]); out.append(["setpre", nm + "s", rng.choice([True, False])])
                        out.append(["contains", nm + "s", "2.0a1", None])
                    elif c[0] == "marker":
                        out.append(["eval", nm, {"extra": "zzz", "os_name": "other"}])
                    else:
                        out.append(["setpre", nm, rng.choice([True, False])]); out.append(["contains", nm, "2.0a1", None])
        idx.append(len(out))
        out.append(st)
        if st[0] in ("spec", "set_str", "set_objs", "and", "attr", "marker"):
            defined.append(st[1])
            if st[0] == "marker" or (st[0] == "attr" and st[3] == "marker"):
                markers_.add(st[1])
                if rng.random() < 0.5:
                    out.append(["eval", st[1], rng.choice([{"extra": "zzz"}, {"os_name": "other"}, {"extra": "zzz", "os_name": "other"}])])
            elif rng.random() < 0.5:           # a read right after the object exists (fills any lazy cache)
                out.append(rng.choice([["pre", st[1]], ["contains", st[1], "1.0", None], ["in", st[1], "2.0a1"]]))
    return out, idx


def run(steps):
    from packaging import markers, requirements, specifiers
    from packaging.version import Version
    env = {}
    res = []
    for st in steps:
        op = st[0]
        try:
            if op == "spec":
                env[st[1]] = specifiers.Specifier(st[2], prereleases=st[3]); r = "ok"
            elif op == "set_str":
                env[st[1]] = specifiers.SpecifierSet(st[2], prereleases=st[3]); r = "ok"
            elif op == "set_objs":
                env[st[1]] = specifiers.SpecifierSet([env[n] for n in st[2]], prereleases=st[3]); r = "ok"
            elif op == "and":
                env[st[1]] = env[st[2]] & env[st[3]]; r = "ok"
            elif op == "req":
                env[st[1]] = requirements.Requirement(st[2]); r = "ok"
            elif op == "attr":
                v = getattr(env[st[2]], st[3])
                if v is None:
                    raise KeyError("absent")
                env[st[1]] = v; r = "ok"
            elif op == "marker":
                env[st[1]] = markers.Marker(st[2]); r = "ok"
            elif op == "setpre":
                o = env[st[1]]
                if not isinstance(o, (specifiers.Specifier, specifiers.SpecifierSet)):
                    raise KeyError("no such setter")
                o.prereleases = st[2]; r = "ok"
            else:
                o = env[st[1]]
                if op == "contains":
                    r = repr(o.contains(st[2], prereleases=st[3]))
                elif op == "in":
                    r = repr(st[2] in o)
                elif op == "pre":
                    r = repr(o.prereleases)
                elif op == "str":
                    r = str(o)
                elif op == "repr":
                    r = repr(o)
                elif op == "hash":
                    r = "same" if hash(o) == hash(o) else "differs"
                elif op == "len":
                    r = repr(len(o))
                elif op == "iter":
                    r = repr(sorted(str(x) for x in o))
                elif op == "filter":
                    r = repr([str(x) for x in o.filter([Version(c) if i % 2 else c for i, c in enumerate(st[2])], prereleases=st[3])])
                elif op == "eval":
                    r = repr(o.evaluate(dict(st[2]) if st[2] else None))
                elif op == "eq":
                    r = repr(o == env[st[2]])
                else:
                    raise KeyError(op)
        except KeyError:
            r = "missing"
        except AttributeError as e:
            r = "missing" if "object has no attribute" in str(e) and op not in ("setpre",) and not str(e).startswith("'Specifier") else "raise AttributeError"
        except TypeError:
            r = "missing"
        except Exception as e:  # noqa: BLE001
            r = "raise " + type(e).__name__
        res.append(r)
    return res


def check(inp):
    """inp = {"steps": [...], "seed": int}; returns (ok, detail)"""
    import random
    steps = inp["steps"]
    a = run(steps)
    for trial in range(3):
        rng = random.Random(inp["seed"] * 7 + trial)
        stepsB, idx = distract(rng, steps)
        b = run(stepsB)
        for i, j in enumerate(idx):
            if a[i] != b[j]:
                extra = [s for k, s in enumerate(stepsB[:j]) if k not in idx]
                return False, (f"step {i} {steps[i]} answers {a[i]!r} in the program {steps[:i + 1]} but {b[j]!r} when these calls, which "
                               f"cannot matter, are made in between: {extra}")
    return True, ""


def attach(prop, every):
    """give `prop` the law `history_insensitive`: one program after every `every` laws of its own"""
    cls = type(prop)
    orig_gen, orig_check = cls.gen_laws, cls.check_law

    def gen_laws(self, rng, n):
        from gen import misc as GM
        from gen import specifiers as GS
        from gen import versions as GV
        k = 0
        for item in orig_gen(self, rng, n):
            yield item
            k += 1
            if k % every == 0:
                yield ("history_insensitive", {"steps": gen_program(rng, GS, GV, GM), "seed": rng.randrange(1 << 30)})

    def check_law(self, law, inp):
        if law == "history_insensitive":
            return check(inp)
        return orig_check(self, law, inp)

    new = type(cls.__name__, (cls,), {"gen_laws": gen_laws, "check_law": check_law})
    prop.__class__ = new
    return prop
