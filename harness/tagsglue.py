"""Shared glue of C15/C16: protocol encoders and injection of interpreter/OS probes at the
standard-library boundary (no hooks in the repository under study).

A *probe description* is a JSON dict; `probes(desc)` patches `sysconfig`, `sys`, `platform`, `os`,
`subprocess`, `importlib.machinery.EXTENSION_SUFFIXES`, `sys.modules['_manylinux']` accordingly, clears the
`functools.lru_cache`s of the libc probes before and after, and restores everything on exit.
"""
from __future__ import annotations

import contextlib
import json
import os
import sys
import tempfile
import types

import core

_ABSENT = object()


class OutOfDomain(Exception):
    """a law input outside the law's domain (never a failure)"""


class _Patcher:
    def __init__(self):
        self.undo = []

    def set(self, obj, attr, value):
        old = getattr(obj, attr, _ABSENT)
        self.undo.append((obj, attr, old))
        setattr(obj, attr, value)

    def delete(self, obj, attr):
        if hasattr(obj, attr):
            self.undo.append((obj, attr, getattr(obj, attr)))
            delattr(obj, attr)

    def item(self, mapping, key, value):
        old = mapping.get(key, _ABSENT)
        self.undo.append((mapping, ("item", key), old))
        if value is _ABSENT:
            mapping.pop(key, None)
        else:
            mapping[key] = value

    def restore(self):
        for obj, attr, old in reversed(self.undo):
            if isinstance(attr, tuple):
                if old is _ABSENT:
                    obj.pop(attr[1], None)
                else:
                    obj[attr[1]] = old
            elif old is _ABSENT:
                try:
                    delattr(obj, attr)
                except AttributeError:
                    pass
            else:
                setattr(obj, attr, old)
        self.undo = []


def clear_caches():
    from packaging import _manylinux, _musllinux
    _manylinux._get_glibc_version.cache_clear()
    _musllinux._get_musl_version.cache_clear()


class _Raise:
    def __init__(self, exc):
        self.exc = exc

    def __call__(self, *a, **k):
        raise self.exc


def make_policy_module(pol):
    """pol: None (no module) | {"kind":"func","default":tri,"rules":[[major,minor,arch,tri],…]}
    | {"kind":"legacy","m1":tri,"m2010":tri,"m2014":tri}   with tri in (None, True, False);
    for legacy, None means "attribute absent"."""
    if pol is None:
        return None
    m = types.ModuleType("_manylinux")
    if pol["kind"] == "func":
        rules = {(r[0], r[1], r[2]): r[3] for r in reversed(pol["rules"])}   # first listed rule wins
        default = pol["default"]

        def manylinux_compatible(major, minor, arch):
            return rules.get((major, minor, arch), default)
        m.manylinux_compatible = manylinux_compatible
        # a module that defines the PEP 600 hook may *also* carry (stale) legacy attributes: they must not be
        # consulted (the hook's answer, None included, is final).  The model's `func` policy has no such
        # attributes, so the correspondence checks exactly that.
        for k, attr in (("m1", "manylinux1_compatible"), ("m2010", "manylinux2010_compatible"),
                        ("m2014", "manylinux2014_compatible")):
            if pol.get(k) is not None:
                setattr(m, attr, pol[k])
    elif pol["kind"] == "legacy":
        for k, attr in (("m1", "manylinux1_compatible"), ("m2010", "manylinux2010_compatible"),
                        ("m2014", "manylinux2014_compatible")):
            if pol.get(k) is not None:
                setattr(m, attr, pol[k])
    else:
        raise KeyError(pol["kind"])
    return m


@contextlib.contextmanager
def probes(d):
    """Patch the standard-library boundary as described by ``d`` (keys are optional):
      config: {name: value}            -> sysconfig.get_config_var (every other name is None)
      sys_version: [X, Y]              -> sys.version_info
      impl_name: str                   -> sys.implementation.name
      has_refcount / has_debug_ext / max_unicode_wide : bool
      system: str                      -> platform.system()
      get_platform: str                -> sysconfig.get_platform()
      mac_ver: [version_str, cpu]      -> platform.mac_ver()
      mac_ver_compat0: str             -> stdout of the SYSTEM_VERSION_COMPAT=0 subprocess
      ios: [release, multiarch]        -> platform.ios_ver(), sys.implementation._multiarch
      confstr: str | None | "raise:X"  -> os.confstr("CS_GNU_LIBC_VERSION")
      ctypes_version: str | None       -> what the ctypes fallback finds (None: CDLL fails)
      policy: see make_policy_module   -> sys.modules['_manylinux']
      exe_hex: str | None              -> sys.executable is a scratch file with these bytes (None: missing file)
      ld_stderr: str                   -> stderr of running the ELF interpreter (subprocess.run)
    """
    import importlib.machinery as machinery
    import platform
    import subprocess
    import sysconfig
    p = _Patcher()
    tmpdir = None
    suffixes = machinery.EXTENSION_SUFFIXES
    saved_suffixes = list(suffixes)
    clear_caches()
    import warnings
    wctx = warnings.catch_warnings()
    wctx.__enter__()
    warnings.simplefilter("ignore")
    try:
        if "config" in d:
            table = dict(d["config"])
            p.set(sysconfig, "get_config_var", lambda name: table.get(name))
        if "impl_name" in d:
            p.set(sys.implementation, "name", d["impl_name"])
        if "has_refcount" in d:
            if d["has_refcount"]:
                p.set(sys, "gettotalrefcount", lambda: 0)
            else:
                p.delete(sys, "gettotalrefcount")
        if "has_debug_ext" in d:
            while "_d.pyd" in suffixes:
                suffixes.remove("_d.pyd")
            if d["has_debug_ext"]:
                suffixes.append("_d.pyd")
        if "max_unicode_wide" in d:
            p.set(sys, "maxunicode", 0x10FFFF if d["max_unicode_wide"] else 0xFFFF)
        if "system" in d:
            p.set(platform, "system", lambda s=d["system"]: s)
        if "get_platform" in d:
            p.set(sysconfig, "get_platform", lambda s=d["get_platform"]: s)
        if "mac_ver" in d:
            v, cpu = d["mac_ver"]
            p.set(platform, "mac_ver", lambda v=v, cpu=cpu: (v, ("", "", ""), cpu))
        if "ios" in d:
            rel, multi = d["ios"]
            p.set(platform, "ios_ver", lambda rel=rel: ("iOS", rel, "iPhone", False))
            p.set(sys.implementation, "_multiarch", multi)
        if "confstr" in d:
            c = d["confstr"]
            if isinstance(c, str) and c.startswith("raise:"):
                exc = {"OSError": OSError, "ValueError": ValueError, "AttributeError": AttributeError}[c[6:]]
                p.set(os, "confstr", _Raise(exc("injected")))
            else:
                p.set(os, "confstr", lambda name, c=c: c)
        if "ctypes_version" in d:
            import ctypes
            cv = d["ctypes_version"]
            if cv is None:
                p.set(ctypes, "CDLL", _Raise(OSError("injected")))
            else:
                class _Fn:
                    restype = None

                    def __call__(self):
                        return cv
                ns = types.SimpleNamespace(gnu_get_libc_version=_Fn())
                p.set(ctypes, "CDLL", lambda name, ns=ns: ns)
        if "policy" in d:
            m = make_policy_module(d["policy"])
            if m is not None and d.get("policy_via") == "path":
                # installed but not imported yet: nothing in sys.modules, `import _manylinux` finds it (PEP 513/600: the
                # library itself discovers the module); restored afterwards (finder removed, sys.modules entry dropped)
                import importlib.abc
                import importlib.machinery

                class _Loader(importlib.abc.Loader):
                    def create_module(self, spec):
                        return m

                    def exec_module(self, module):
                        pass

                class _Finder(importlib.abc.MetaPathFinder):
                    def find_spec(self, name, path=None, target=None):
                        if name == "_manylinux":
                            return importlib.machinery.ModuleSpec(name, _Loader())
                        return None
                p.item(sys.modules, "_manylinux", _ABSENT)
                p.set(sys, "meta_path", [_Finder()] + list(sys.meta_path))
            else:
                # a None entry makes `import _manylinux` raise ImportError even if one is installed
                p.item(sys.modules, "_manylinux", m)
        if "exe_hex" in d:
            tmpdir = tempfile.mkdtemp(prefix="verif-tags-")
            path = os.path.join(tmpdir, "python")
            if d["exe_hex"] is not None:
                with open(path, "wb") as f:
                    f.write(bytes.fromhex(d["exe_hex"]))
            p.set(sys, "executable", path)
        if "ld_stderr" in d or "mac_ver_compat0" in d:
            def run(cmd, *a, **k):
                if k.get("env") == {"SYSTEM_VERSION_COMPAT": "0"}:
                    return types.SimpleNamespace(stdout=d.get("mac_ver_compat0", ""), stderr="", returncode=0)
                return types.SimpleNamespace(stdout="", stderr=d.get("ld_stderr", ""), returncode=0)
            p.set(subprocess, "run", run)
        if "sys_version" in d:
            x, y = d["sys_version"]
            p.set(sys, "version_info", (x, y, 0, "final", 0))
        yield
    finally:
        wctx.__exit__(None, None, None)
        p.restore()
        suffixes[:] = saved_suffixes
        clear_caches()
        if tmpdir is not None:
            import shutil
            shutil.rmtree(tmpdir, ignore_errors=True)


# ---------------------------------------------------------------- protocol
def enc_strs(xs):
    return "l" + ",".join(core.enc(x) for x in xs)


def enc_ostrs(xs):
    return "~" if xs is None else enc_strs(xs)


def dec_ostrs(a):
    if a == "~":
        return None
    assert a[0] == "l"
    return [core.dec(x) for x in a[1:].split(",")] if len(a) > 1 else []


def enc_ver(v):
    return "~" if v is None else "v" + ",".join(str(int(x)) for x in v)


def dec_ver(a):
    if a == "~":
        return None
    assert a[0] == "v"
    return tuple(int(x) for x in a[1:].split(",")) if len(a) > 1 else ()


def enc_cv(v):
    if v is None:
        return "~"
    if isinstance(v, bool):
        raise TypeError(v)
    if isinstance(v, int):
        return "i" + str(v)
    return "s" + core.enc(v)


def enc_json(d):
    return "j" + json.dumps(d, sort_keys=True, separators=(",", ":")).encode().hex()


def dec_json(a):
    assert a[0] == "j"
    return json.loads(bytes.fromhex(a[1:]).decode())


def enc_tags(tags):
    return "ok " + ";".join(",".join(core.enc(x) for x in (t.interpreter, t.abi, t.platform)) for t in tags)


def enc_strlist_out(xs):
    return "ok " + ",".join(core.enc(x) for x in xs)


def dec_strlist_out(s):
    assert s.startswith("ok ")
    body = s[3:]
    return [core.dec(x) for x in body.split(",")] if body else []


def is_ascii(s):
    return all(ord(c) < 128 for c in s)
