"""Spec-side character kinds (mirrors lean/PkgModel/Spec/Kinds.lean — the Lean side re-checks the generated tables)."""
# kind ids
OTHER, DIGIT = 0, 1
LETTER0 = 2                      # 'a'..'z' (either case) -> 2..27
DOT, DASH, UNDER, PLUS, BANG, STAR, WS, EQ, LT, GT, TILDE, SEMI, RPAR, LPAR, COMMA, UPPER0 = 28, 29, 30, 31, 32, 33, 34, 35, 36, 37, 38, 39, 40, 41, 42, 43
PUNCT = {".": DOT, "-": DASH, "_": UNDER, "+": PLUS, "!": BANG, "*": STAR, "=": EQ, "<": LT, ">": GT,
         "~": TILDE, ";": SEMI, ")": RPAR, "(": LPAR, ",": COMMA}
ASCII_WS = " \t\n\r\f\v"


def kind_ci(cp: int) -> int:
    """case-insensitive kinds (version / specifier languages)"""
    ch = chr(cp)
    if "0" <= ch <= "9":
        return DIGIT
    if "a" <= ch <= "z":
        return LETTER0 + cp - 97
    if "A" <= ch <= "Z":
        return LETTER0 + cp - 65
    if ch in PUNCT:
        return PUNCT[ch]
    if ch in ASCII_WS:
        return WS
    return OTHER


def kind_cs(cp: int) -> int:
    """case-sensitive kinds (name languages): upper-case letters are 43..68, newline is its own kind 69"""
    ch = chr(cp)
    if "A" <= ch <= "Z":
        return UPPER0 + cp - 65
    if ch == "\n":
        return 69
    return kind_ci(cp)
