#!/bin/sh
# lanetest.sh <lane> <name> <worktree> <prop> [more props…]
# Like seedtest.sh, but never touches /repo: the checks run from a scratch copy of /verif (lane directory
# /root/work/lane<lane>, refreshed with rsync) with VERIF_REPO pointing at the worktree that holds the change.
# Several lanes can run at once.  Confirms the change first (suite passes with it, demo fails with / passes
# without), stores patch, demo, meta and the check outputs under /verif/seeded/<name>.  Evidence written by
# these runs stays in the lane copy and is discarded.
set -u
lane=$1; name=$2; wt=$3; shift 3
here=$(cd "$(dirname "$0")/.." && pwd)
L=/root/work/lane$lane
out="$here/seeded/$name"
mkdir -p "$out" /root/work
cd "$wt" || exit 2
git diff -- src > "$out/patch.diff"
[ -s "$out/patch.diff" ] || { echo "$name: empty patch"; rmdir "$out" 2>/dev/null; exit 2; }
cp demo.py "$out/demo.py" 2>/dev/null
cp meta.json "$out/meta.json" 2>/dev/null
PYTHONPATH="$wt/src" /venv/bin/python -m pytest -q -p no:cacheprovider --timeout=900 2>&1 | tail -1 > "$out/suite.txt"
/venv/bin/python demo.py > "$out/demo_with.txt" 2>&1; echo "exit $?" >> "$out/demo_with.txt"
git checkout -q -- src
/venv/bin/python demo.py > "$out/demo_without.txt" 2>&1; echo "exit $?" >> "$out/demo_without.txt"
git apply "$out/patch.diff"
mkdir -p "$L"
rsync -a --delete --exclude .git --exclude seeded --exclude harmless --exclude replays "$here/" "$L/"
cd "$L"
res=""
for p in "$@"; do
  VERIF_REPO="$wt" ./check "$p" quick > "$out/check_$p.txt" 2>&1; rc=$?
  echo "rc=$rc" >> "$out/check_$p.txt"
  for f in $(grep -o 'replay=[^ ]*' "$out/check_$p.txt" | head -3 | cut -d= -f2); do cp "$f" "$out/" 2>/dev/null; done
  v=$(grep -c '^VIOLATION' "$out/check_$p.txt"); nf=$(grep -c 'no-failing-input-found' "$out/check_$p.txt")
  res="$res $p:rc=$rc,viol=$v,nofail=$nf"
done
echo "$name suite=[$(cat $out/suite.txt)] with=$(tail -1 $out/demo_with.txt) without=$(tail -1 $out/demo_without.txt)$res"
