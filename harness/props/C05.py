"""C05 — SpecifierSet is the conjunction of its specifiers; & is intersection; str round trip."""
from __future__ import annotations

import itertools
import random
import zlib

import core
import ssetglue as G
from gen import specsets as GSS
from gen import versions as GV
from run import Prop

OVS = [None, True, False]


def _salt(op, args):
    return zlib.crc32(("\t".join([op, *args])).encode())


def _spec_accepts(cand_s):
    Specifier = G.P()[0]

    def accepts(c):
        s = GSS.spell_clause(random.Random(1), c, plain=True)
        return Specifier(s).contains(cand_s, prereleases=True)
    return accepts


def sample(rng):
    """one sampled case: two clause lists around a common version, spelled, plus candidates"""
    near = GV.struct(rng)
    cands = [GV.spell(rng, GV.neighbour(rng, near) if rng.random() < 0.8 else GV.struct(rng)) for _ in range(3)]
    cands[0] = GV.spell(rng, near)
    if rng.random() < 0.5:
        acc = _spec_accepts(cands[0])
        a = GSS.satisfiable_structs(rng, near, None, acc)
        b = GSS.satisfiable_structs(rng, near, None, acc, nmax=3)
    else:
        a = GSS.clause_structs(rng, near)
        b = GSS.clause_structs(rng, near, nmax=3)
    if a and rng.random() < 0.3:          # overlap between the operands
        b = b + [GSS.variant(rng, rng.choice(a))]
    sa = [GSS.spell_clause(rng, c) for c in a]
    sb = [GSS.spell_clause(rng, c) for c in b]
    if rng.random() < 0.04:
        sa.append(GSS.GS.malformed_clause(rng))
    return near, a, b, sa, sb, cands


def descr(rng, spelled, *, allow_list=True):
    """descriptor for a clause list: from a string, or (when allowed) from Specifier objects with own overrides"""
    as_list = allow_list and (rng.random() < 0.25 or any("," in s for s in spelled))
    if as_list:
        return G.d_list([(s, rng.choice([None, None, None, True, False])) for s in spelled])
    return G.d_str(GSS.join_clauses(rng, spelled))


class C05(Prop):
    id = "C05"
    lean_modules = ["PkgProofs.Props.C05"]
    theorems = [
        "C05.contains_is_all", "C05.contains_perm_invariant", "C05.empty_matches_all", "C05.ofString_empty",
        "C05.clause_order_dup_invariant", "C05.matchAlike_all", "SSet.equal_specs_match_alike",
        "SSet.equal_specs_same_prereleases", "SSet.key_cases", "SSet.canonical_isOk", "SSet.scan_no_star",
        "C05.ofSpecs_total", "C05.ofString_total", "C05.eq_sets_match_alike", "C05.contains_is_all_of_strings",
        "C05.clause_order_dup_invariant_of_strings", "C05.and_is_inter_of_strings", "SSet.cmpOk_of_readable",
        "SSet.ofString_readable", "SSet.parse_roundtrips", "SSet.scan_chars", "C05.ofString_roundtrips",
        "C05.str_parses_back_of_strings", "C05.str_parses_back_and_of_strings", "C05.str_parses_back_of_parsed",
        "C05.and_is_inter", "C05.and_override_table", "C05.and_error_iff", "C05.and_comm", "C05.and_comm_ext",
        "C05.and_assoc", "C05.and_eq_parse_concat", "C05.eq_iff", "C05.eq_hash", "C05.eq_refl", "C05.eq_symm",
        "C05.eq_trans", "C05.ofString_wf", "C05.and_wf", "C05.str_perm_invariant", "C05.str_parses_back",
        "C05.str_does_not_parse_back_with_comma", "C05.str_depends_on_supply_order",
        "SSet.union_fromList", "SSet.foldl_insert_foldl", "SSet.contains_eq_admits", "SSet.sortBy_perm_invariant",
    ]
    rule = ("per sampled case: two multisets of 0-6 clauses around a common version (random order, spacing, duplicates, "
            "equal-but-differently-spelled members such as ==1.0/==1.0.0, a few ===<text> clauses), built from a string or "
            "from Specifier objects with their own overrides; all 27 combinations of override None/True/False on both "
            "operands and on the call for (a & b).contains; observables: members+len, str, ==/!=/hash-equality, "
            "a & b (members, override, exception class), contains; the implementation's frozenset iteration order is "
            "passed to the model as the permutation argument; non-trivial = set constructed")
    trusted = ["frozenset: deduplication by __eq__/__hash__ keeping the first inserted element; iteration order arbitrary "
               "(passed to the model from the running interpreter)",
               "hash() as an uninterpreted symmetric function of the members' canonical keys"]
    partial = [
        "the general str_parses_back keeps the decidable member hypothesis SSet.roundtrips; it is discharged for sets "
        "parsed from strings and their & (str_parses_back_of_strings), and for members produced by Specifier(str) "
        "unless an === text contains a comma (str_parses_back_of_parsed; that corner is the known finding, DESIGN §8 row 21)",
        "theorems over arbitrary model values keep the hypothesis CmpOk (no member raises when compared with the "
        "candidate); the *_of_strings theorems discharge it through C03 for string-built sets and parsed candidates; "
        "sets built from Specifier objects with their own overrides are covered by the general theorems + correspondence",
        "hash(): only 'equal sets have the same multiset of member keys' is proved; hash values are CPython's",
    ]
    budget = {"quick": (6000, 1500), "thorough": (130000, 50000)}

    # ------------------------------------------------------------ correspondence
    def gen_cases(self, rng, n):
        while True:
            near, a, b, sa, sb, cands = sample(rng)
            da, db = descr(rng, sa), descr(rng, sb)
            ova = rng.choice(OVS)
            yield ("set.parse", [da, G.ob(ova)])
            yield ("set.str", [da, G.ob(ova), G.order_for(da, G.ob(ova))])
            # equality: against a reshuffled / respelled / duplicated copy, against the other operand
            sa2 = list(sa) + ([rng.choice(sa)] if sa else [])
            rng.shuffle(sa2)
            yield ("set.eq", [da, G.ob(ova), descr(rng, sa2), G.ob(rng.choice(OVS))])
            yield ("set.eq", [da, G.ob(ova), db, G.ob(rng.choice(OVS))])
            c = core.enc(rng.choice(cands))
            for oa, p in itertools.product(OVS, OVS):
                inst = rng.choice(["~", "~", "0", "1"])
                yield ("set.contains", [da, G.ob(oa), "-", G.order_for(da, G.ob(oa)), c, G.ob(p), inst])
            for oa, ob_ in itertools.product(OVS, OVS):
                yield ("set.and", [da, G.ob(oa), db, G.ob(ob_)])
            c = core.enc(rng.choice(cands))
            try:
                r = G.build(da, "~") & G.build(db, "~")
                order = G.order_of(r)
            except Exception:
                order = "="
            for oa, ob_, p in itertools.product(OVS, OVS, OVS):
                yield ("set.andcontains", [da, G.ob(oa), db, G.ob(ob_), order, c, G.ob(p), "~"])

    def real(self, op, args):
        kinds = None
        salt = _salt(op, args)
        if op == "set.contains" and salt % 2:
            kinds = "v"
        if op in ("set.and", "set.eq") and salt % 3 == 0:
            kinds = "str-operand"
        return G.real(op, args, kinds)

    def nontrivial(self, op, args, out):
        return not (out.startswith("err") or out.startswith("raw") or out.startswith("bad") or out.startswith("harness"))

    def branch(self, op, args, out):
        head = out.split(" ", 2)
        if op in ("set.parse",):
            return f"{op}:{'len=' + head[1] if head[0] == 'ok' else ' '.join(head[:2])}:{args[0][:1]}"
        if op in ("set.contains", "set.andcontains"):
            return f"{op}:{out[:16]}:p={args[5] if op == 'set.contains' else args[6]}"
        if op == "set.and":
            return f"{op}:{'ok ov=' + out.rsplit(' ', 1)[-1] if head[0] == 'ok' else out}"
        if op == "set.eq":
            return f"{op}:{out}"
        return f"{op}:{head[0]}"

    def judge(self, op, args, real, model, driver):
        # law property: re-evaluate the laws on the real code at the disagreeing input
        try:
            if op in ("set.contains", "set.andcontains", "set.parse", "set.str", "set.eq", "set.and"):
                cl = _clauses_of(args[0])
                cand = core.dec(args[4]) if op == "set.contains" else (core.dec(args[5]) if op == "set.andcontains" else "1.0")
                if op in ("set.and", "set.andcontains", "set.eq"):
                    clb = _clauses_of(args[2])
                    inp = {"a": cl, "b": clb, "cands": [cand]}
                    for law in ("intersection", "comm_assoc", "parse_concat"):
                        if not self.check_law(law, inp)[0]:
                            return (law, inp)
                inp = {"clauses": cl, "clauses2": list(reversed(cl)), "cands": [cand], "how": "list" if args[0].startswith("l:") else "str"}
                if not self.check_law("conjunction", inp)[0]:
                    return ("conjunction", inp)
                inp = {"clauses": cl, "how": inp["how"]}
                if not self.check_law("str_roundtrip", inp)[0]:
                    return ("str_roundtrip", inp)
        except Exception:
            return None
        return None

    # ------------------------------------------------------------ laws on the real code
    def gen_laws(self, rng, n):
        k = 0
        # the corners named in DESIGN §8 are generated on purpose
        seeds = [
            ("conjunction", {"clauses": ["===1.0", "===1.0.0"], "clauses2": ["===1.0.0", "===1.0"], "cands": ["1.0", "1.0.0"], "how": "str"}),
            ("str_roundtrip", {"clauses": ["===1,0"], "how": "list"}),
            ("intersection", {"a": ["===1.0"], "b": ["===1.0.0"], "cands": ["1.0"]}),
        ]
        for s in seeds:
            yield s; k += 1
        while k < n:
            near, a, b, sa, sb, cands = sample(rng)
            sa = [s for s in sa if _valid_clause(s)]
            sb = [s for s in sb if _valid_clause(s)]
            how = rng.choice(["list", "list", "gen"]) if (rng.random() < 0.25 or any("," in s for s in sa)) else rng.choice(["str", "str", "and"])
            # a second clause list with the same members up to Specifier equality: permuted, duplicated, respelled variants
            sa2 = list(sa)
            for c in a:
                if rng.random() < 0.4:
                    s2 = GSS.spell_clause(rng, GSS.variant(rng, c))
                    if _same_spec(s2, sa):
                        sa2.append(s2)
            if sa2 and rng.random() < 0.5:
                sa2.append(rng.choice(sa2))
            rng.shuffle(sa2)
            yield ("conjunction", {"clauses": sa, "clauses2": sa2, "cands": cands, "how": how}); k += 1
            if not any("," in s for s in sa + sb):
                yield ("intersection", {"a": sa, "b": sb, "cands": cands}); k += 1
                if k % 2 == 0:
                    sc = [GSS.spell_clause(rng, c) for c in GSS.clause_structs(rng, near, nmax=3)]
                    sc = [s for s in sc if _valid_clause(s) and "," not in s]
                    yield ("comm_assoc", {"a": sa, "b": sb, "c": sc, "cands": cands}); k += 1
                if k % 3 == 0:
                    yield ("parse_concat", {"a": sa, "b": sb, "cands": cands, "seed": rng.randrange(1 << 30)}); k += 1
            yield ("str_roundtrip", {"clauses": sa, "how": how}); k += 1
            if k % 25 == 0:
                yield ("empty_all", {"s": "".join(rng.choice([",", " ", "\t", ", "]) for _ in range(rng.randrange(0, 5))),
                                     "cands": cands}); k += 1

    def check_law(self, law, inp):
        try:
            return self._check(law, inp)
        except G.Domain as e:
            return True, "outside the law's domain: " + str(e)

    def _check(self, law, inp):
        Specifier, SpecifierSet, InvalidSpecifier, Version, InvalidVersion = G.P()

        def mk(clauses, how="str", ov=None):
            if how == "list":
                return SpecifierSet([Specifier(c) for c in clauses], prereleases=ov)
            if how == "gen":          # any iterable of Specifier objects: here a one-shot generator
                return SpecifierSet((Specifier(c) for c in clauses), prereleases=ov)
            if any("," in c for c in clauses):
                raise G.Domain("a clause containing a comma cannot be given inside a string")
            if how == "and":
                # the same set, obtained by intersecting one-clause sets (alternately `set & str` and `set & set`)
                acc = SpecifierSet(clauses[0] if clauses else "", prereleases=ov)
                for i, c in enumerate(clauses[1:]):
                    acc = acc & (c if i % 2 == 0 else SpecifierSet(c))
                return acc if clauses[1:] else acc & SpecifierSet("")
            return SpecifierSet(",".join(clauses), prereleases=ov)

        if law == "conjunction":
            cl, cl2, how = inp["clauses"], inp["clauses2"], inp.get("how", "str")
            members = [Specifier(c) for c in cl]
            members2 = [Specifier(c) for c in cl2]
            if set(members) != set(members2):
                raise G.Domain("clause lists differ by more than order/duplication/equal spelling")
            s1, s2 = mk(cl, how), mk(cl2, how)
            for c in inp["cands"]:
                Version(c)
                want = all(m.contains(c, prereleases=True) for m in members)
                want2 = all(m.contains(c, prereleases=True) for m in members2)
                got = s1.contains(c, prereleases=True)
                got2 = s2.contains(c, prereleases=True)
                got3 = mk(cl, how, True).contains(c)
                got4 = c in mk(cl, how, True)
                if got != want:
                    return False, f"SpecifierSet({cl!r}).contains({c!r}, prereleases=True) = {got}, but all(members) = {want}"
                if got2 != want2:
                    return False, f"SpecifierSet({cl2!r}).contains({c!r}, prereleases=True) = {got2}, but all(members) = {want2}"
                if got != got2:
                    return False, f"same members in another order/duplication {cl!r} vs {cl2!r}: contains({c!r}) {got} vs {got2}"
                if got3 != got or got4 != got:
                    return False, f"override True / `in` disagree with the call argument on {cl!r}, {c!r}"
            return True, ""

        if law == "empty_all":
            s = SpecifierSet(inp["s"])
            if len(s) != 0:
                raise G.Domain("not an empty set")
            for c in inp["cands"]:
                if not s.contains(c, prereleases=True) or not SpecifierSet(inp["s"], prereleases=True).contains(c):
                    return False, f"the empty set {inp['s']!r} rejects {c!r} with pre-releases enabled"
            return True, ""

        if law == "intersection":
            a_cl, b_cl = inp["a"], inp["b"]
            for oa, ob_ in itertools.product(OVS, OVS):
                a, b = mk(a_cl, ov=oa), mk(b_cl, ov=ob_)
                conflict = oa is not None and ob_ is not None and oa != ob_
                try:
                    r = a & b
                except ValueError as e:
                    if type(e) is ValueError and conflict:
                        continue
                    return False, f"{a!r} & {b!r} raised {type(e).__name__}"
                if conflict:
                    return False, f"{a!r} & {b!r} combined contradictory overrides into {r!r}"
                want_ov = oa if oa is not None else ob_
                if r._prereleases is not want_ov:
                    return False, f"{a!r} & {b!r} carries override {r._prereleases}, expected {want_ov}"
                if ob_ is None:
                    r2 = a & ",".join(b_cl)
                    if r2 != r or r2._prereleases is not r._prereleases:
                        return False, f"{a!r} & str differs from & SpecifierSet"
                for c in inp["cands"]:
                    Version(c)
                    both = a.contains(c, prereleases=True) and b.contains(c, prereleases=True)
                    got = r.contains(c, prereleases=True)
                    if got != both:
                        return False, (f"({a!r} & {b!r}).contains({c!r}, prereleases=True) = {got}; "
                                       f"a: {a.contains(c, prereleases=True)}, b: {b.contains(c, prereleases=True)}")
                # `&` leaves its operands alone, also afterwards: the result is the caller's to change (its override is
                # settable), and nothing of that may show in the operands
                snap = [(str(x), x.prereleases, x._prereleases, len(x), [x.contains(c) for c in inp["cands"]]) for x in (a, b)]
                for val in (True, False, None):
                    r.prereleases = val
                    now = [(str(x), x.prereleases, x._prereleases, len(x), [x.contains(c) for c in inp["cands"]]) for x in (a, b)]
                    if now != snap:
                        return False, (f"after `r = {a!r} & {b!r}` (overrides {oa}, {ob_}), setting r.prereleases = {val} changed an operand: "
                                       f"{snap} -> {now}")
            return True, ""

        if law == "comm_assoc":
            for oa, ob_, oc in itertools.product(OVS, OVS, OVS):
                a, b, c3 = mk(inp["a"], ov=oa), mk(inp["b"], ov=ob_), mk(inp["c"], ov=oc)

                def tryand(f):
                    try:
                        return f()
                    except ValueError as e:
                        if type(e) is not ValueError:
                            raise
                        return "ValueError"
                ab, ba = tryand(lambda: a & b), tryand(lambda: b & a)
                l = tryand(lambda: (a & b) & c3)
                r = tryand(lambda: a & (b & c3))
                for x, y, what in ((ab, ba, "commutativity"), (l, r, "associativity")):
                    if isinstance(x, str) or isinstance(y, str):
                        if x != y:
                            return False, f"{what}: one side raises, the other gives a set ({oa},{ob_},{oc}) on {inp['a']!r} {inp['b']!r} {inp['c']!r}"
                        continue
                    if not (x == y) or hash(x) != hash(y) or len(x) != len(y):
                        return False, f"{what}: {x!r} != {y!r}"
                    if x._prereleases is not y._prereleases:
                        return False, f"{what}: overrides differ {x._prereleases} vs {y._prereleases}"
                    for c in inp["cands"]:
                        for p in OVS:
                            if p is None and _has_raw(inp["a"] + inp["b"] + inp["c"]):
                                continue
                            if x.contains(c, prereleases=p) != y.contains(c, prereleases=p):
                                return False, f"{what}: {x!r} and {y!r} differ on {c!r} (prereleases={p})"
            return True, ""

        if law == "parse_concat":
            rng = random.Random(inp.get("seed", 0))
            sa = GSS.join_clauses(rng, inp["a"])
            sb = GSS.join_clauses(rng, inp["b"])
            x = SpecifierSet(sa) & SpecifierSet(sb)
            y = SpecifierSet(sa + "," + sb)
            if not (x == y) or hash(x) != hash(y) or str(x) != str(y) or len(x) != len(y):
                return False, f"SpecifierSet({sa!r}) & SpecifierSet({sb!r}) = {x!r}, parsed from the concatenation: {y!r}"
            for c in inp["cands"]:
                for p in (True, None, False):
                    if x.contains(c, prereleases=p) != y.contains(c, prereleases=p):
                        return False, f"& and concatenation differ on {c!r} (prereleases={p})"
            if x.prereleases != y.prereleases or [str(v) for v in x.filter(inp["cands"])] != [str(v) for v in y.filter(inp["cands"])]:
                return False, f"& and concatenation differ in .prereleases / filter(): {x!r} vs {y!r}"
            return True, ""

        if law == "str_roundtrip":
            how = inp.get("how", "str")
            s = mk(inp["clauses"], how)
            t = str(s)
            if t != ",".join(sorted(str(m) for m in s)):
                return False, f"str is not the sorted comma-joined member strings: {t!r}"
            if str(mk(inp["clauses"], how)) != t or str(s) != t:
                return False, "str is not deterministic"
            try:
                back = SpecifierSet(t)
            except InvalidSpecifier:
                return False, f"str(set) = {t!r} does not parse back (members {sorted(map(str, s))!r})"
            if not (back == s) or hash(back) != hash(s):
                return False, f"str(set) = {t!r} parses back to a different set {back!r}"
            if str(back) != t:
                return False, f"str is not a fixed point: {t!r} -> {str(back)!r}"
            return True, ""
        raise KeyError(law)


def _clauses_of(src):
    if src.startswith("s:"):
        return [c.strip() for c in core.dec(src[2:]).split(",") if c.strip()]
    return [core.dec(p.split(";")[0]) for p in src[2:].split(",")] if src[2:] else []


def _valid_clause(s):
    Specifier, _, InvalidSpecifier, *_ = G.P()
    try:
        Specifier(s)
        return True
    except InvalidSpecifier:
        return False


def _same_spec(s, among):
    Specifier = G.P()[0]
    try:
        return Specifier(s) in {Specifier(x) for x in among}
    except Exception:
        return False


def _has_raw(clauses):
    Version, InvalidVersion = G.P()[3], G.P()[4]
    for c in clauses:
        c = c.strip()
        if c.startswith("==="):
            try:
                Version(c[3:])
            except InvalidVersion:
                return True
    return False


from srccall import with_src  # noqa: E402

# translated source (x5): the SpecifierSet constructor, `&`, `==`, `hash`, `len`, `str`, `iter` and the Specifier methods
# they rest on are regenerated from specifiers.py and proved equal to the SSet.* functions the C05 theorems are about
# (iteration order of the frozenset: a parameter, see Src.Ordered / Src.ordered_of_perm)
PROP = with_src(C05(), share=10,
                functions=["Specifier.__str__", "Specifier._canonical_spec", "Specifier.__hash__", "Specifier.__eq__",
                           "SpecifierSet.__init__", "SpecifierSet.__and__", "SpecifierSet.__eq__", "SpecifierSet.__hash__",
                           "SpecifierSet.__len__", "SpecifierSet.__str__", "SpecifierSet.__iter__"],
                module=["PkgProofs.Props.Src.SSetMember", "PkgProofs.Props.Src.SSetBuild", "PkgProofs.Props.Src.SSetRead"],
                theorems=["Src.member_translated", "Src.build_translated", "Src.read_translated",
                          "Src.Specifier.__str___eq_model", "Src.Specifier._canonical_spec_eq_model",
                          "Src.Specifier.__hash___eq_model", "Src.Specifier.__eq___eq_model", "Src.Specifier.__eq___str",
                          "Src.SpecifierSet.__init___specs", "Src.SpecifierSet.__init___str",
                          "Src.SpecifierSet.__and___eq_model", "Src.SpecifierSet.__and___str",
                          "Src.SpecifierSet.__eq___eq_model", "Src.SpecifierSet.__eq___str", "Src.SpecifierSet.__eq___spec",
                          "Src.SpecifierSet.__hash___eq_model", "Src.SpecifierSet.__len___eq_model",
                          "Src.SpecifierSet.__str___eq_model", "Src.SpecifierSet.__iter___eq_model", "Src.ordered_of_perm"])
# x7: `SpecifierSet.__repr__` (ASCII text; every iteration order) against SSet.SpecSet.repr
PROP = with_src(PROP, share=10, functions=["SpecifierSet.__repr__"], module=["PkgProofs.Props.Src.X7Spec"],
                theorems=["Src.SpecifierSet.__repr___translated", "Src.SpecifierSet.__repr___eq_model"])

# history-insensitivity on shared objects (harness/histlaw.py): programs over Specifier / SpecifierSet / Requirement / Marker
# objects; extra read-only calls and work on unrelated objects built from the same texts must not change any answer
import histlaw  # noqa: E402
PROP = histlaw.attach(PROP, every=25)
