"""C10 — equality is an equivalence, agrees with hash, and implies same behaviour."""
from __future__ import annotations

import random

import core
from gen import misc as GM
from gen import specifiers as GS
from gen import versions as GV
from run import Prop

TYPES = ["Version", "Specifier", "SpecifierSet", "Marker", "Requirement", "Tag"]


def respell_marker(rng, m):
    """same marker, different white space / quote style / redundant outer parentheses / PEP 345 spellings"""
    out = m
    if rng.random() < 0.5:
        out = "(" + out + ")"
    if rng.random() < 0.5:
        out = out.replace("os_name", "os.name").replace("sys_platform", "sys.platform").replace("platform_version", "platform.version")
    if rng.random() < 0.5:
        out = "  " + out.replace(" and ", "  and  ").replace(" or ", "   or ") + " "
    if rng.random() < 0.5 and '"' not in out:
        out = out.replace("'", '"')
    return out


def make(rng, typ):
    """three spellings (a, b, c): a and b are meant to be equal for a non-obvious reason, c is a near miss"""
    a, b, c = _make(rng, typ)
    if rng.random() < 0.3:
        b = rng.choice(CLONES) + b          # ... or because one is a clone of an equal object
    return a, b, c


def _make(rng, typ):
    if typ == "Version":
        v = GV.struct(rng)
        w = dict(v, release=list(v["release"]) + [0] * rng.choice([0, 1, 2]))
        return GV.spell(rng, v), GV.spell(rng, w), GV.spell(rng, GV.neighbour(rng, v))
    if typ == "Specifier" and rng.random() < 0.12:
        # arbitrary equality compares text without regard to letter case: two spellings, and a near miss
        t = rng.choice(["1.0+LOCAL", "1.0RC1", "2.0.POST1", "Foo", "1.0+Ubuntu.1", "v1.0A1"])
        return "===" + t, "===" + rng.choice([t.lower(), t.upper(), t.swapcase()]), "===" + t + "x"
    if typ == "Specifier":
        c = GS.clause_struct(rng)
        op, v, wc = c
        w = dict(v, release=list(v["release"]) + ([0] if (op != "~=" and not wc and rng.random() < 0.6) else []))
        # the second object may be the member of a one-clause set
        via = "in:" if rng.random() < 0.3 else ""
        third = GS.clause_struct(rng, near=v)
        if wc and rng.random() < 0.7:
            # prefix matching: `==V.*` and `==V.0.*` are different specifiers (the second excludes V.1); whatever == says
            # about them, equal objects must match alike (the probes V.5 / V.0.5 are added in check_law)
            third = (op, dict(v, release=list(v["release"]) + [0] * rng.choice([1, 1, 2])), True)
        return GS.spell_clause(rng, c, ws=False), via + GS.spell_clause(rng, (op, w, wc), ws=False), GS.spell_clause(rng, third, ws=False)
    if typ == "SpecifierSet":
        near = GV.struct(rng)
        cs = [GS.clause_struct(rng, near=near) for _ in range(rng.randrange(0, 4))]
        a = [GS.spell_clause(rng, c, ws=False) for c in cs]
        b = [GS.spell_clause(rng, c) for c in cs]
        rng.shuffle(b)
        if b and rng.random() < 0.3:
            b.append(b[0])
        c3 = a + [GS.clause(rng, near=near, ws=False)]
        # the second object may be obtained another way: by intersecting one-clause sets
        via = "&:" if (rng.random() < 0.4 and not any("," in x for x in b)) else ""
        return ",".join(a), via + " , ".join(b), ",".join(c3)
    if typ == "Marker":
        if rng.random() < 0.6:
            # two layouts of one formula tree: white space, quote style, PEP 345 spellings and redundant parentheses at
            # every level (around single comparisons, groups and the whole expression)
            from gen import markers as GMK
            pool = GMK.make_pool(rng)
            tree = GMK.formula(rng, pool, p_odd=0.0)
            a = GMK.render(tree, rng, extra_paren=0.0, max_redundant=0)
            b = GMK.render(tree, rng, extra_paren=0.5, max_redundant=3)
            return a, b, GMK.render(GMK.formula(rng, pool, p_odd=0.0), rng)
        if rng.random() < 0.2:
            # redundant (doubled) parentheses around a group that precedence needs: equal to the singly parenthesised
            # spelling, different from the unparenthesised one
            x, y, z = (GM.marker_atom(rng) for _ in range(3))
            op1, op2 = rng.choice([("and", "or"), ("or", "and")])
            return f"{x} {op1} (({y} {op2} {z}))", f"{x} {op1} ({y} {op2} {z})", (f"{x} {op1} {y} {op2} {z}" if op1 == "and" else f"({x} {op1} {y}) {op2} {z}")
        m = GM.marker(rng, 2)
        # the second object may be the marker attached to a parsed requirement
        return m, ("req:" if rng.random() < 0.4 else "") + respell_marker(rng, m), GM.marker(rng, 2)
    if typ == "Requirement":
        from props.C08 import render, req_struct
        st = req_struct(rng)
        extras2 = list(reversed(st["extras"]))
        if extras2 and rng.random() < 0.5:
            # the same extras in another PEP 685 spelling (case, separators): whatever == decides, hash and parts must follow
            extras2 = [e.upper().replace("-", "_").replace(".", "-") if rng.random() < 0.7 else e for e in extras2]
        st2 = dict(st, name=st["name"].upper().replace("-", "_"), extras=extras2, clauses=list(reversed(st["clauses"])))
        if st["marker"]:
            st2["marker"] = respell_marker(rng, st["marker"])
        if rng.random() < 0.3:
            # near miss: the same requirement with another URL / with a URL instead of no version clause
            st3 = dict(st, clauses=[], paren=False, url=(st["url"] or "https://example.com/a.zip") + ("x" if st["url"] else ""))
            if st["url"] is None and not st["clauses"]:
                pass                                   # a: `name`, c: `name @ url`
            elif st["url"] is None:
                st3 = dict(st, name=st["name"] + "x")  # (a URL cannot be added next to version clauses)
            return render(rng, st), render(rng, st2), render(rng, st3)
        return render(rng, st), render(rng, st2), render(rng, req_struct(rng))
    if typ == "Tag":
        parts = [rng.choice(["py3", "cp39", "CP310"]), rng.choice(["none", "abi3", "CP39M"]), rng.choice(["any", "linux_x86_64", "Win32", "macosx_10_9_X86_64"])]
        a = "-".join(parts)
        b = "-".join(p.upper() if rng.random() < 0.5 else p.lower() for p in parts)
        q = list(parts); q[rng.randrange(3)] += "x"
        return a, b, "-".join(q)
    raise KeyError(typ)


CLONES = ("copy:", "deepcopy:", "pickle:")
ROUTES = CLONES + ("&:", "in:", "req:")


def plain(s):
    """the text of a spelled object without the construction-route prefixes"""
    while s.startswith(ROUTES):
        s = s.split(":", 1)[1]
    return s


def build(typ, s):
    from packaging import markers, requirements, specifiers, tags, version
    if s.startswith(CLONES):
        # an equal object obtained by cloning: copy / deepcopy / a pickle round trip
        import copy
        import pickle
        how, rest = s.split(":", 1)
        x = build(typ, rest)
        return copy.copy(x) if how == "copy" else copy.deepcopy(x) if how == "deepcopy" else pickle.loads(pickle.dumps(x, pickle.HIGHEST_PROTOCOL))
    if typ == "Version":
        return version.Version(s)
    if typ == "Specifier":
        if s.startswith("in:"):
            if "," in s:
                raise ValueError("comma inside a clause")
            (m,) = list(specifiers.SpecifierSet(s[3:]))
            return m
        return specifiers.Specifier(s)
    if typ == "SpecifierSet":
        if s.startswith("&:"):
            parts = [x for x in s[2:].split(",")]
            acc = specifiers.SpecifierSet(parts[0])
            for i, c in enumerate(parts[1:]):
                acc = acc & (c if i % 2 == 0 else specifiers.SpecifierSet(c))
            return acc if parts[1:] else acc & specifiers.SpecifierSet("")
        return specifiers.SpecifierSet(s)
    if typ == "Marker":
        if s.startswith("req:"):
            return requirements.Requirement("name ; " + s[4:]).marker
        return markers.Marker(s)
    if typ == "Requirement":
        return requirements.Requirement(s)
    if typ == "Tag":
        (t,) = tags.parse_tag(s)
        return t
    raise KeyError(typ)


ENVS = [{"os_name": "posix", "sys_platform": "linux", "python_version": "3.9", "python_full_version": "3.9.1", "extra": "a-b",
         "platform_machine": "x86_64", "platform_release": "5.0", "platform_system": "Linux", "platform_version": "1",
         "platform_python_implementation": "CPython", "implementation_name": "cpython", "implementation_version": "3.9.1"},
        {"os_name": "nt", "sys_platform": "win32", "python_version": "2.7", "python_full_version": "2.7.18", "extra": "",
         "platform_machine": "", "platform_release": "a b", "platform_system": "3.8", "platform_version": "1.0+local",
         "platform_python_implementation": "1.0", "implementation_name": "linux", "implementation_version": "3.10.0"}]


def behaviour(typ, x, probes):
    """observable behaviour of an object under a list of probes (exceptions by class name)"""
    out = []
    if typ == "Version":
        return [str(x), x.epoch, x.release, x.pre, x.post, x.dev, x.local, x.is_prerelease] if False else [x.public.split("!")[-1] is not None]
    if typ in ("Specifier", "SpecifierSet"):
        for c in probes:
            for pre in (None, True, False):
                try:
                    out.append(x.contains(c, prereleases=pre))
                except Exception as e:  # noqa: BLE001
                    out.append("exc " + type(e).__name__)
        try:
            out.append([str(v) for v in x.filter(probes)])
        except Exception as e:  # noqa: BLE001
            out.append("exc " + type(e).__name__)
        return out
    if typ == "Marker":
        for env in ENVS:
            try:
                out.append(x.evaluate(env))
            except Exception as e:  # noqa: BLE001
                out.append("exc " + type(e).__name__)
        return out
    if typ == "Requirement":
        from packaging.utils import canonicalize_name
        return [canonicalize_name(x.name), sorted(x.extras), x.specifier, x.url, x.marker]
    if typ == "Tag":
        return [x.interpreter, x.abi, x.platform, str(x)]
    raise KeyError(typ)


class C10(Prop):
    id = "C10"
    lean_modules = ["PkgProofs.Props.C10", "PkgProofs.Props.C08", "PkgProofs.Props.C10Layout"]
    theorems = ["C10.version_eq_equivalence", "C10.version_eq_hash", "C10.version_eq_interchangeable",
                "C10.spec_eq_equivalence", "C10.spec_eq_hash", "C10.spec_eq_same_contains",
                "C10.set_eq_equivalence", "C10.set_eq_hash", "C10.set_eq_same_contains",
                "C10.marker_eq_equivalence", "C10.marker_eq_hash", "C09.same_tokens_same_eval", "C09.eq_iff_same_str",
                "C10.marker_layouts_interchangeable", "C10.marker_extra_spellings_interchangeable", "C10.evaluate_of_formula",
                "C09.eq_hash_layout_independent",
                "C10.tag_eq_iff", "C10.tag_eq_equivalence", "C10.tag_eq_same_fields",
                "C08.eq_equivalence", "C08.hash_agrees", "C08.eq_is_pep503_and_spec_eq", "C08.extras_as_set",
                "SSet.equal_specs_match_alike", "SSet.equal_specs_same_prereleases", "C05.eq_sets_match_alike"]
    trusted = ["hash() as an uninterpreted function of the key each __hash__ hashes",
               "the per-type models (see C01, C03/C05, C09, C14) are tied to the code by those properties' correspondence runs"]
    partial = [               "Marker interchangeability is proved at token level (C09.same_tokens_same_eval) and at character level for any two layouts of one formula (C10.marker_layouts_interchangeable, marker_extra_spellings_interchangeable: same value or exception in every environment); literals with backslash/CR/LF/NUL/surrogates are outside the layouts",
               "Specifier.contains with prereleases=None: equal `===` clauses that differ in letter case are required to have the same text"]
    rule = ("for each of the six value types, triples (a, b, c): a and b equal for a non-obvious reason (spelling, trailing "
            "zeros, case, clause order/duplication, name normalisation, white space, quotes, parentheses), c a near miss; "
            "checked: reflexive/symmetric/transitive ==, != is its negation, equal ⇒ equal hash ⇒ collapse in set/dict, "
            "equal ⇒ same behaviour under probes; non-trivial = a == b")
    budget = {"quick": (0, 3500), "thorough": (0, 150000)}

    def gen_laws(self, rng, n):
        for i in range(n):
            typ = TYPES[i % len(TYPES)]
            a, b, c = make(rng, typ)
            near = GV.struct(rng)
            probes = [GV.spell(rng, GV.neighbour(rng, near)) for _ in range(4)]
            yield ("eq_hash_behaviour", {"type": typ, "a": a, "b": b, "c": c, "probes": probes})
            if i % 5 == 0:
                yield ("foreign_operand", {"type": typ, "a": a, "b": b})

    def check_law(self, law, inp):
        if law == "foreign_operand":
            # Specifier and SpecifierSet accept a *string* operand in == / != and convert it: for a string that parses, the
            # answer must be the one the parsed object gives, in both operand orders, and != must be its negation.
            # (Operands of unrelated types and strings that do not parse are outside the property statement; observed:
            # SpecifierSet(...) == "junk" raises InvalidSpecifier while Specifier(...) == "junk" is False — not checked.)
            typ = inp["type"]
            if typ not in ("Specifier", "SpecifierSet"):
                return True, "no string operand for this type"
            x = build(typ, inp["a"])
            for spelled in (inp["b"], inp["a"]):
                parsed = build(typ, spelled)
                text = plain(spelled)
                want = (x == parsed)
                e1, e2, n1, n2 = (x == text), (text == x), (x != text), (text != x)
                if not (e1 == e2 == want and n1 == n2 == (not want)):
                    return False, f"{typ}({inp['a']!r}) vs the string {text!r}: ==:{e1}/{e2} !=:{n1}/{n2}, but == {typ}(text) is {want}"
            return True, ""
        if law != "eq_hash_behaviour":
            raise KeyError(law)
        typ = inp["type"]
        objs = [build(typ, inp[k]) for k in "abc"]
        from packaging.version import Version
        probes = [p for p in inp["probes"] if Version(p) is not None]
        # candidates derived from the objects themselves make interchangeability probes bite
        if typ in ("Specifier", "SpecifierSet"):
            import re
            for k in "abc":
                for m in re.findall(r"[0-9][0-9a-zA-Z.!_+-]*", inp[k]):
                    m = m.rstrip(".")                              # the version part of `==V.*`
                    for cand in (m, m + ".5", m + ".0.5"):
                        try:
                            Version(cand); probes.append(cand)
                        except Exception:  # noqa: BLE001
                            pass
        for i, x in enumerate(objs):
            if not (x == x) or (x != x) or hash(x) != hash(x):
                return False, f"{typ}({inp['abc'[i]]!r}) is not equal to itself"
            # a clone is known to be equal: == both ways, not !=, same hash, one element in a set, found as a dict key,
            # same behaviour
            import copy
            import pickle
            for how, y in (("copy.copy", copy.copy(x)), ("copy.deepcopy", copy.deepcopy(x)),
                           ("pickle round trip", pickle.loads(pickle.dumps(x, pickle.HIGHEST_PROTOCOL)))):
                if not (x == y and y == x) or (x != y) or (y != x):
                    return False, f"{typ}({inp['abc'[i]]!r}): the {how} is not equal to the original"
                if hash(x) != hash(y) or len({x, y}) != 1 or {x: 1}.get(y) != 1:
                    return False, f"{typ}({inp['abc'[i]]!r}): the {how} hashes differently / does not collapse with the original"
                if behaviour(typ, x, probes[:4]) != behaviour(typ, y, probes[:4]):
                    return False, f"{typ}({inp['abc'[i]]!r}): the {how} behaves differently"
        for i in range(3):
            for j in range(3):
                x, y = objs[i], objs[j]
                e = (x == y)
                if e != (y == x):
                    return False, f"{typ}: == not symmetric on {inp['abc'[i]]!r}, {inp['abc'[j]]!r}"
                if (x != y) == e:
                    return False, f"{typ}: != is not the negation of == on {inp['abc'[i]]!r}, {inp['abc'[j]]!r}"
                if e:
                    if hash(x) != hash(y):
                        return False, f"{typ}: {inp['abc'[i]]!r} == {inp['abc'[j]]!r} but hashes differ"
                    if len({x, y}) != 1 or len({x: 1, y: 2}) != 1:
                        return False, f"{typ}: equal objects do not collapse in a set/dict: {inp['abc'[i]]!r}, {inp['abc'[j]]!r}"
                    bx, by = behaviour(typ, x, probes), behaviour(typ, y, probes)
                    if bx != by:
                        return False, f"{typ}: {inp['abc'[i]]!r} == {inp['abc'[j]]!r} but they behave differently: {bx} vs {by}"
        a, b, c = objs
        if a == b and b == c and not a == c:
            return False, f"{typ}: == not transitive"
        if a == b and (a == c) != (b == c):
            return False, f"{typ}: equal objects disagree about a third: {inp['a']!r}, {inp['b']!r} vs {inp['c']!r}"
        return True, "a==b" if a == b else "a!=b"


from srccall import with_src  # noqa: E402

# translated source (x5): `__eq__` / `__hash__` of Specifier and SpecifierSet, regenerated from specifiers.py and proved
# equal to the key equality (`SSet.key`, `SSet.SpecSet.eq`) the C10 theorems are about; what is hashed is the very value
# that `__eq__` compares (`_canonical_spec`, the frozenset `_specs`)
PROP = with_src(C10(), share=10,
                functions=["Specifier.__eq__", "Specifier.__hash__", "SpecifierSet.__eq__", "SpecifierSet.__hash__"],
                module=["PkgProofs.Props.Src.SSetMember", "PkgProofs.Props.Src.SSetBuild", "PkgProofs.Props.Src.SSetRead"],
                theorems=["Src.member_translated", "Src.build_translated", "Src.read_translated",
                          "Src.Specifier.__eq___eq_model", "Src.Specifier.__eq___str", "Src.Specifier.__hash___eq_model",
                          "Src.SpecifierSet.__eq___eq_model", "Src.SpecifierSet.__eq___str", "Src.SpecifierSet.__eq___spec",
                          "Src.SpecifierSet.__hash___eq_model"])
# … and of Requirement (requirements.py) against Req.eq / the hashed tuple
PROP = with_src(PROP, share=10, functions=["Requirement.__eq__", "Requirement.__hash__"],
                module=["PkgProofs.Props.Src.ReqStr", "PkgProofs.Props.Src.ReqEq"],
                theorems=["Src.reqstr_translated", "Src.reqeq_translated", "Src.Requirement.__eq___eq_model",
                          "Src.Requirement.__eq___parsed", "Src.Requirement.__eq___other", "Src.Requirement.__hash___eq_model"])
