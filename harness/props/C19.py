"""C19 — licence expressions are validated and canonicalised per SPDX."""
from __future__ import annotations

import random
import sys

import core
from gen import licenses as G
from run import Prop

# --------------------------------------------------------------------------- real code


def _api():
    from packaging.licenses import InvalidLicenseExpression, canonicalize_license_expression
    return canonicalize_license_expression, InvalidLicenseExpression


def real_canon(s):
    """('ok', result) | ('err', 'InvalidLicenseExpression') | ('raw', ExceptionName)"""
    f, Invalid = _api()
    try:
        return ("ok", str(f(s)))
    except Invalid:
        return ("err", "InvalidLicenseExpression")
    except Exception as e:  # noqa: BLE001 - the class of what escapes is the observable
        return ("raw", type(e).__name__)


def proto(r):
    return "ok " + core.enc(r[1]) if r[0] == "ok" else f"{r[0]} {r[1]}"


# --------------------------------------------------------------------------- reference (from the statement)
# Independent of the implementation and of the Lean spec: a scanner and a recursive-descent parser for
#   compound := term ((AND | OR) term)*      term := "(" compound ")" | simple [WITH exception]
#   simple   := license-id ["+"] | LicenseRef-[A-Za-z0-9.-]+
# identifiers/operators in any ASCII letter case; tokens separated by white space (str.isspace) and parentheses.

_REF_OK = set("abcdefghijklmnopqrstuvwxyzABCDEFGHIJKLMNOPQRSTUVWXYZ0123456789.-")
_ASCII_LOWER = {c: c + 32 for c in range(65, 91)}
_IDS = None


def _ids():
    global _IDS
    if _IDS is None:
        from packaging.licenses import _spdx
        lic = {v["id"].translate(_ASCII_LOWER): v["id"] for v in _spdx.LICENSES.values()}
        exc = {v["id"].translate(_ASCII_LOWER): v["id"] for v in _spdx.EXCEPTIONS.values()}
        _IDS = (lic, exc)
    return _IDS


def ref_tokens(s):
    toks, cur = [], ""
    for ch in s:
        if ch.isspace() or ch in "()":
            if cur:
                toks.append(cur)
                cur = ""
            if ch in "()":
                toks.append(ch)
        else:
            cur += ch
    if cur:
        toks.append(cur)
    return toks


def _fold(w):
    return w.translate(_ASCII_LOWER)


def _simple(w):
    """canonical spelling of a simple expression or None"""
    lic, _ = _ids()
    lw = _fold(w)
    if lw.startswith("licenseref-"):
        suf = w[11:]
        return "LicenseRef-" + suf if suf and all(c in _REF_OK for c in suf) else None
    if lw in lic:
        return lic[lw]
    if lw.endswith("+") and lw[:-1] in lic:
        return lic[lw[:-1]] + "+"
    return None


class _P:
    def __init__(self, toks):
        self.t, self.i, self.out = toks, 0, []

    def peek(self):
        return self.t[self.i] if self.i < len(self.t) else None

    def kw(self):
        p = self.peek()
        return _fold(p) if p is not None else None

    def compound(self):
        if not self.term():
            return False
        while self.kw() in ("and", "or"):
            self.out.append(self.kw().upper())
            self.i += 1
            if not self.term():
                return False
        return True

    def term(self):
        p = self.peek()
        if p is None:
            return False
        if p == "(":
            self.out.append("(")
            self.i += 1
            if not self.compound() or self.peek() != ")":
                return False
            self.out.append(")")
            self.i += 1
            return True
        if p == ")" or _fold(p) in ("and", "or", "with"):
            return False
        c = _simple(p)
        if c is None:
            return False
        self.out.append(c)
        self.i += 1
        if self.kw() == "with":
            self.i += 1
            e = self.peek()
            _, exc = _ids()
            if e is None or _fold(e) not in exc:
                return False
            self.out += ["WITH", exc[_fold(e)]]
            self.i += 1
        return True


def ref_canon(s):
    """canonical form per the statement, or None if ``s`` is not a well-formed expression"""
    toks = ref_tokens(s)
    if len(toks) > 20000:
        raise ValueError("too long for the reference parser")
    p = _P(toks)
    if not p.compound() or p.i != len(toks):
        return None
    out = ""
    for k, t in enumerate(p.out):
        if k and not (p.out[k - 1] == "(" or t == ")"):
            out += " "
        out += t
    return out


def max_depth(toks):
    d = m = 0
    for t in toks:
        if t == "(":
            d += 1
            m = max(m, d)
        elif t == ")":
            d = max(0, d - 1)
    return m


# --------------------------------------------------------------------------- inputs

sys.setrecursionlimit(max(sys.getrecursionlimit(), 10000))   # the reference parser recurses twice per parenthesis


def input_string(inp):
    """the string a law input denotes: {'s': str} or {'toks': [...], 'seed': n} (spelled deterministically)"""
    if "s" in inp:
        return inp["s"]
    toks = inp["toks"]
    if not all(isinstance(t, str) and t and not any(c.isspace() for c in t) for t in toks):
        raise ValueError("not a token list")
    for t in toks:
        if len(t) > 1 and ("(" in t or ")" in t):
            raise ValueError("parenthesis inside a token")
    return G.spell(random.Random(inp.get("seed", 0)), toks, recase=inp.get("recase", True))


class C19(Prop):
    id = "C19"
    lean_modules = ["PkgProofs.Props.C19"]
    generated = ["SpdxTables", "SpdxUnicode"]
    theorems = ["C19.canon_eq_spec", "C19.accepts_iff_spdx_wf", "C19.rejects_iff_not_wf", "C19.recogniser_is_machine",
                "C19.WF_iff_compound", "C19.accepts_iff_grammar",
                "C19.canon_structure_preserved", "C19.canon_idem", "C19.case_space_insensitive",
                "C19.table_wellformed", "C19.spaces_ok", "C19.refPattern_is_modelled", "C19.asciiLower_is_modelled"]
    rule = ("expressions generated from the SPDX grammar over the bundled LICENSES/EXCEPTIONS (popular ids repeated, "
            "whole table sampled), LicenseRef- ids, '+' suffixes, random ASCII case and white space (incl. non-ASCII "
            "str.isspace characters), nesting up to 6 and occasionally 150-400 deep; 19 kinds of token-level damage "
            "(missing/extra operands, operators, parentheses, '+', WITH placement, empty/doubled parentheses, LicenseRef "
            "case twins, odd code points incl. U+212A/U+0130/U+017F/NUL/lone surrogate); arbitrary strings. "
            "non-trivial = accepted by the implementation")
    trusted = [
        "str.split()/str.isspace as measured per code point from the running interpreter (Gen.SpdxUnicode); "
        "str.translate with the regenerated _ASCII_LOWER table; str.replace on one- and two-character patterns",
        "the one regular expression license_ref_allowed is hand-modelled (Lic.refAllowed); its source text is pinned by "
        "C19.refPattern_is_modelled",
    ]
    partial = []
    budget = {"quick": (12000, 5000), "thorough": (400000, 120000)}

    def __init__(self):
        self._label = {}

    # ---- generation shared by correspondence and laws
    def _case(self, rng):
        """-> (label, law-input dict)"""
        r = rng.random()
        sd = rng.randrange(1 << 30)
        if r < 0.004:
            return "deep", {"toks": _deep(rng.choice([150, 199, 200, 201, 400]), rng.choice(["AND", "OR"])), "seed": sd}
        if r < 0.38:
            return "valid", {"toks": G.expr(rng, 0, rng.choice([1, 2, 3, 4, 6])), "seed": sd}
        if r < 0.86:
            toks = G.expr(rng, 0, rng.choice([1, 2, 3, 4]))
            kind, toks = G.damage(rng, toks)
            if rng.random() < 0.25:
                k2, toks = G.damage(rng, toks)
                kind += "+" + k2
            toks = [t for t in toks if t]
            try:
                input_string({"toks": toks, "seed": sd})
            except ValueError:
                # odd_char put a space or parenthesis inside a token: hand the spelled string over as is
                return "damage:" + kind, {"s": G.spell(random.Random(sd), toks)}
            return "damage:" + kind, {"toks": toks, "seed": sd}
        return "arbitrary", {"s": G.arbitrary(rng)}

    # ---- correspondence
    def gen_cases(self, rng, n):
        while True:
            label, inp = self._case(rng)
            s = input_string(inp)
            a = core.enc(s)
            self._label[a] = label
            yield ("lic.canon", [a])
            if max_depth(ref_tokens(s)) <= 2000:
                yield ("s.lic.canon", [a])      # Lean spec vs the independent Python reference (both from the statement)

    def real(self, op, args):
        if op == "s.lic.canon":
            want = ref_canon(core.dec(args[0]))
            return "ok " + core.enc(want) if want is not None else "err InvalidLicenseExpression"
        return proto(real_canon(core.dec(args[0])))

    def nontrivial(self, op, args, out):
        return out.startswith("ok ")

    def branch(self, op, args, out):
        label = ("spec:" if op == "s.lic.canon" else "") + self._label.get(args[0], "?").split("+")[0]
        return f"{label}:{out.split(' ', 1)[0] if not out.startswith('raw') else out}"

    def judge(self, op, args, real, model, driver):
        if op != "lic.canon":
            return None      # Lean spec vs Python reference: a disagreement is my defect, not the repository's
        s = core.dec(args[0])
        for law in ("exception_class", "accept_iff_wf", "canon_is_spdx_canon", "idempotent"):
            try:
                ok, _ = self.check_law(law, {"s": s})
            except Exception:
                continue
            if not ok:
                return (law, {"s": s})
        return None

    # ---- laws
    def gen_laws(self, rng, n):
        # the listed deviations first, so that they are exercised on every run
        for law, inp in WITNESSES:
            yield (law, inp)
        # the bundled tables themselves: every key is the lower-cased identifier it maps to, and the identifier
        # canonicalises to itself (a slip in one table row is not reachable through identifiers drawn from the values)
        from packaging.licenses import _spdx
        for kind, tab in (("license", _spdx.LICENSES), ("exception", _spdx.EXCEPTIONS)):
            for key in tab:
                yield ("table_row", {"kind": kind, "key": key})
        k = 0
        while k < n:
            label, inp = self._case(rng)
            k += 1
            yield ("accept_iff_wf", inp)
            if k % 2 == 0:
                yield ("exception_class", inp); k += 1
            if k % 3 == 0:
                yield ("canon_is_spdx_canon", inp); k += 1
            if k % 4 == 0:
                yield ("idempotent", inp); k += 1
            if k % 5 == 0 and "toks" in inp:
                yield ("case_space_insensitive", {"toks": inp["toks"], "seed": inp["seed"], "seed2": rng.randrange(1 << 30)}); k += 1

    def check_law(self, law, inp):
        if law == "table_row":
            from packaging.licenses import _spdx
            tab = _spdx.LICENSES if inp["kind"] == "license" else _spdx.EXCEPTIONS
            key = inp["key"]
            row = tab[key]
            if row["id"].translate(_ASCII_LOWER) != key:
                return False, f"{inp['kind']} table: key {key!r} maps to the identifier {row['id']!r}"
            expr = key.upper() if inp["kind"] == "license" else "MIT WITH " + key.upper()
            want = row["id"] if inp["kind"] == "license" else "MIT WITH " + row["id"]
            r = real_canon(expr)
            return r == ("ok", want), f"canonicalize_license_expression({expr!r}) = {r}, expected {want!r}"
        s = input_string(inp)
        toks = ref_tokens(s)
        if max_depth(toks) > 2000:
            raise ValueError("too deep for the reference parser")
        r = real_canon(s)
        if law == "exception_class":
            return r[0] != "raw", f"canonicalize_license_expression({s!r}) raised {r[1]}, not InvalidLicenseExpression"
        if law == "accept_iff_wf":
            want = ref_canon(s)
            if r[0] == "raw":
                # neither accepted nor rejected as documented: exception_class reports it; here only "accepted although ill-formed" counts
                return True, ""
            if (r[0] == "ok") != (want is not None):
                return False, (f"{s!r}: " + ("accepted as " + repr(r[1]) if r[0] == "ok" else "rejected") +
                               " but the expression is " + ("well-formed SPDX" if want is not None else "not well-formed SPDX"))
            return True, ""
        if law == "canon_is_spdx_canon":
            want = ref_canon(s)
            if r[0] != "ok" or want is None:
                return True, "not in (accepted and well-formed)"
            return r[1] == want, f"{s!r} -> {r[1]!r}, canonical form per SPDX is {want!r}"
        if law == "idempotent":
            if r[0] != "ok":
                return True, "rejected"
            r2 = real_canon(r[1])
            return r2 == r, f"{s!r} -> {r[1]!r} -> {r2[1]!r}"
        if law == "case_space_insensitive":
            s2 = G.spell(random.Random(inp["seed2"]), inp["toks"], recase=True)
            r2 = real_canon(s2)
            return r == r2, f"{s!r} -> {r[1]!r} but {s2!r} -> {r2[1]!r} (same tokens up to ASCII case and spacing)"
        raise KeyError(law)


def _deep(d, op="AND"):
    return ["(", "MIT", op] * d + ["MIT"] + [")"] * d


# one witness per deviation class (DESIGN §8 rows 17, 18 and what the machinery added)
WITNESSES = [
    ("accept_iff_wf", {"s": "MIT AND ()"}),
    ("accept_iff_wf", {"s": "() OR MIT"}),
    ("accept_iff_wf", {"s": "((MIT))"}),
    ("accept_iff_wf", {"s": "((MIT OR ISC) AND Apache-2.0)"}),
    ("accept_iff_wf", {"s": "MIT WITH (MIT)"}),
    ("accept_iff_wf", {"s": "(MIT OR ISC) WITH Classpath-exception-2.0"}),
    ("accept_iff_wf", {"s": "MIT WITH Classpath-exception-2.0 WITH Classpath-exception-2.0"}),
    ("accept_iff_wf", {"s": "LicenseRef-"}),
    ("exception_class", {"s": "LicenseRef-foo+"}),
    ("accept_iff_wf", {"s": "LicenseRef-foo+ AND LicenseRef-foo"}),
    ("canon_is_spdx_canon", {"s": "LicenseRef-Foo OR LicenseRef-foo"}),
    ("accept_iff_wf", {"s": "Kastrup"}),
    ("accept_iff_wf", {"s": "LicenseRef-K"}),
    ("accept_iff_wf", {"toks": _deep(200), "seed": 0, "recase": False}),
]

from srccall import with_src  # noqa: E402

# translated source: the function itself is proved equal to Lic.canon, the model all theorems are about
PROP = with_src(C19(), share=10, functions=["canonicalize_license_expression"], module="PkgProofs.Props.Src.License",
                theorems=["Src.canonicalize_license_expression_translated", "Src.canonicalize_license_expression_eq_model"])
