"""C06 — pre-release gating and filter() follow the PEP 440 policy (Specifier and SpecifierSet, over histories)."""
from __future__ import annotations

import itertools
import random
import zlib

import core
import ssetglue as G
from gen import specsets as GSS
from gen import versions as GV
from props.C05 import _spec_accepts, _valid_clause, descr
from run import Prop

OVS = [None, True, False]
ALL9 = [[o, p] for o in OVS for p in OVS]


def _salt(op, args):
    return zlib.crc32(("\t".join([op, *args])).encode())


def sample(rng):
    near = GV.struct(rng)
    if rng.random() < 0.5:
        near = dict(near); near["pre"] = None; near["dev"] = None
    finals = rng.choice([None, None, True, False])
    cands = [GV.spell(rng, v) for v in GSS.candidates(rng, near, finals=finals)]
    r = rng.random()
    if r < 0.14:
        a = []
    elif r < 0.6:
        acc = _spec_accepts(GV.spell(rng, near, ws=False))
        a = GSS.satisfiable_structs(rng, near, None, acc, nmax=4)
    else:
        a = GSS.clause_structs(rng, near, nmax=4)
    sa = [GSS.spell_clause(rng, c) for c in a]
    sa = [s for s in sa if s.isascii()]
    return near, a, sa, cands


def hist_for(rng, assign):
    """a history whose last assignment is ``assign`` ('' = no assignment at all)"""
    h = ""
    if assign != "" and rng.random() < 0.4:
        h += "".join(rng.choice("~01c") for _ in range(rng.randrange(1, 4)))
    elif rng.random() < 0.3:
        h += "c"
    h += assign
    if rng.random() < 0.3:
        h += "c"
    return h or "-"


def last_write(ov0, hist):
    cur = ov0
    for ch in (hist if hist != "-" else ""):
        if ch != "c":
            cur = G.unob(ch)
    return cur


class C06(Prop):
    id = "C06"
    lean_modules = ["PkgProofs.Props.C06"]
    theorems = [
        "C06.gate", "C06.gate_rejects", "C06.spec_gate", "C06.names_ne", "C06.names_iff", "C06.spec_contains_eq",
        "C06.final_unaffected", "C06.spec_final_unaffected", "C06.enable_monotone", "C06.spec_enable_monotone",
        "C06.override_true_eq_call_true", "C06.set_filter_is_filter", "C06.spec_filter_fallback",
        "C06.empty_set_fallback", "C06.installed_uses_base", "C06.installed_final",
        "C06.history_last_write_wins", "C06.lastWrite_eq", "C06.calls_do_not_write", "C06.history_observations",
        "SSet.contains_eq_admits", "SSet.contains_installed", "SSet.filterChain_ok", "SSet.spec_filter_some",
        "SSet.spec_filter_none", "SSet.preOk", "C06.set_filter_is_filter_of_strings",
        "C06.spec_filter_fallback_of_strings", "C06.contains_eq_policy_of_strings",
    ]
    rule = ("per sampled case: a specifier / a set of 0-4 clauses (string-built or from Specifier objects with their own "
            "overrides) x a candidate list of 0-8 spelled versions (mixed str/Version objects, shuffled, with and without "
            "final releases, with and without matching ones) x all 27 combinations of constructor override, later "
            "assignment to .prereleases (inside a history with reading calls) and call argument; observables: filter result "
            "as index list into the input (identity), contains incl. installed=, .prereleases; non-trivial = no exception")
    trusted = ["frozenset iteration order (passed to the model from the running interpreter)",
               "generator objects: list(filter(...)) consumed eagerly; laziness is not modelled"]
    partial = [
        "generator laziness of filter() is not modelled: results are compared after list(); an exception raised "
        "mid-iteration and the items yielded before it are not distinguished",
        "theorems over arbitrary model values keep the hypothesis CmpOk (no member raises on the candidate); the "
        "*_of_strings theorems discharge it through C03 for string-built sets/specifiers and parsed candidates",
        "history_last_write_wins is a statement about the model's state machine (calls are pure by construction); that "
        "the implementation's reading methods do not write is observed by the correspondence/law `history` only",
    ]
    budget = {"quick": (10000, 2500), "thorough": (200000, 50000)}

    # ------------------------------------------------------------ correspondence
    def gen_cases(self, rng, n):
        while True:
            near, a, sa, cands = sample(rng)
            d = descr(rng, sa)
            cs = ",".join(core.enc(c) for c in cands)
            assigns = ["", "1", "0"] if rng.random() < 0.7 else ["~", "1", "0"]
            for ov, asg, p in itertools.product(OVS, assigns, OVS):
                h = hist_for(rng, asg)
                yield ("set.filter", [d, G.ob(ov), h, G.order_for(d, G.ob(ov)), G.ob(p), cs])
            for ov, asg in itertools.product(OVS, assigns):
                h = hist_for(rng, asg)
                yield ("set.pre", [d, G.ob(ov), h, G.order_for(d, G.ob(ov))])
            for c in cands[:2]:
                for ov, asg, p in rng.sample(list(itertools.product(OVS, assigns, OVS)), 9):
                    inst = rng.choice(["~", "0", "1", "1"])
                    yield ("set.contains", [d, G.ob(ov), hist_for(rng, asg), G.order_for(d, G.ob(ov)), core.enc(c), G.ob(p), inst])
            # the single Specifier
            if sa:
                s1 = core.enc(rng.choice(sa))
                for ov, asg, p in itertools.product(OVS, assigns, OVS):
                    yield ("spec.h.filter", [s1, G.ob(ov), hist_for(rng, asg), G.ob(p), cs])
                for ov, asg in itertools.product(OVS, assigns):
                    yield ("spec.h.pre", [s1, G.ob(ov), hist_for(rng, asg)])
                for c in cands[:2]:
                    for ov, asg, p in rng.sample(list(itertools.product(OVS, assigns, OVS)), 6):
                        yield ("spec.h.contains", [s1, G.ob(ov), hist_for(rng, asg), core.enc(c), G.ob(p)])

    def real(self, op, args):
        salt = _salt(op, args)
        kinds = None
        if op in ("set.filter", "spec.h.filter"):
            cs = args[5] if op == "set.filter" else args[4]
            kinds = G.kinds_for(cs.split(",") if cs else [], salt)
        elif op in ("set.contains", "spec.h.contains") and salt % 2:
            kinds = "v"
        return G.real(op, args, kinds)

    def nontrivial(self, op, args, out):
        return not (out.startswith("err") or out.startswith("raw") or out.startswith("bad") or out.startswith("harness"))

    def branch(self, op, args, out):
        if op in ("set.filter", "spec.h.filter"):
            src = args[0]
            empty = (op == "set.filter" and src in ("l:",)) or (op == "set.filter" and src.startswith("s:") and not core.dec(src[2:]).replace(",", "").strip())
            cs = (args[5] if op == "set.filter" else args[4])
            n = len(cs.split(",")) if cs else 0
            res = out.split(" ", 1)
            k = (len(res[1].split(",")) if len(res) > 1 and res[1] else 0) if res[0] == "ok" else out
            shape = "none" if k == 0 else ("all" if k == n else "some") if res[0] == "ok" else out[:20]
            pi = 4 if op == "set.filter" else 3
            return f"{op}:{'empty-set' if empty else 'members'}:p={args[pi]}:{shape}"
        if op in ("set.contains",):
            return f"{op}:{out[:14]}:inst={args[6]}"
        if op == "spec.h.contains":
            return f"{op}:{out[:14]}:p={args[4]}"
        return f"{op}:{out[:18]}"

    def judge(self, op, args, real, model, driver):
        try:
            if op.startswith("set."):
                from props.C05 import _clauses_of
                cl = _clauses_of(args[0])
                how = "list" if args[0].startswith("l:") else "str"
            else:
                cl, how = [core.dec(args[0])], "spec"
            if op.endswith("filter"):
                cs = args[5] if op == "set.filter" else args[4]
                cands = [core.dec(x) for x in cs.split(",")] if cs else []
            elif op.endswith("contains"):
                cands = [core.dec(args[4] if op == "set.contains" else args[3])]
            else:
                cands = ["1.0", "1.0a1"]
            inp = {"clauses": cl, "how": how, "cands": cands, "combos": ALL9, "seed": 1}
            for law in ("gate", "filter_contains", "installed_base"):
                if not self.check_law(law, inp)[0]:
                    return (law, inp)
        except Exception:
            return None
        return None

    # ------------------------------------------------------------ laws on the real code
    def gen_laws(self, rng, n):
        k = 0
        yield ("filter_contains", {"clauses": [">=1.0"], "how": "spec", "cands": ["1.1a1"], "combos": [[False, None]], "seed": 0}); k += 1
        yield ("filter_contains", {"clauses": [], "how": "str", "cands": ["1.1a1", "1.0"], "combos": ALL9, "seed": 0}); k += 1
        yield ("filter_contains", {"clauses": [], "how": "str", "cands": ["1.1a1", "1.0.dev1"], "combos": ALL9, "seed": 0}); k += 1
        while k < n:
            near, a, sa, cands = sample(rng)
            sa = [s for s in sa if _valid_clause(s) and "," not in s]
            sd = rng.randrange(1 << 30)
            how = rng.choice(["str", "str", "list", "and", "gen"])
            base = {"clauses": sa, "how": how, "cands": cands, "combos": ALL9, "seed": sd}
            yield ("gate", base); k += 1
            yield ("filter_contains", base); k += 1
            if k % 2 == 0:
                yield ("monotone_final", base); k += 1
            if k % 3 == 0:
                yield ("installed_base", base); k += 1
            if sa:
                one = dict(base); one["clauses"] = [rng.choice(sa)]; one["how"] = "spec"
                yield ("gate", one); k += 1
                yield ("filter_contains", one); k += 1
                if k % 2 == 0:
                    yield ("monotone_final", one); k += 1
            h = "".join(rng.choice("~01cc") for _ in range(rng.randrange(0, 6)))
            hb = dict(base); hb["hist"] = h; hb["ov0"] = rng.choice(OVS); hb["p"] = rng.choice(OVS)
            if sa and rng.random() < 0.4:
                hb["clauses"] = [rng.choice(sa)]; hb["how"] = "spec"
            yield ("history", hb); k += 1

    def check_law(self, law, inp):
        try:
            return self._check(law, inp)
        except G.Domain as e:
            return True, "outside the law's domain: " + str(e)
        except Exception as e:
            if type(e).__name__ == "InvalidVersion" and law != "monotone_final" and _has_raw_arbitrary(inp.get("clauses", [])):
                # before C03-fix-3 `.prereleases` of ===<text> raised; the law `monotone_final` reports that
                return True, "outside the law's domain: a member raises InvalidVersion"
            raise

    def _check(self, law, inp):
        Specifier, SpecifierSet, InvalidSpecifier, Version, InvalidVersion = G.P()
        cl, how = inp["clauses"], inp.get("how", "str")
        if how == "spec" and len(cl) != 1:
            raise G.Domain("a single Specifier needs exactly one clause")

        def mk(ov):
            if how == "spec":
                return Specifier(cl[0], prereleases=ov)
            if how == "list":
                return SpecifierSet([Specifier(c) for c in cl], prereleases=ov)
            if how == "gen":          # any iterable of Specifier objects: here a one-shot generator
                return SpecifierSet((Specifier(c) for c in cl), prereleases=ov)
            if any("," in c for c in cl):
                raise G.Domain("comma inside a clause")
            if how == "and":
                # the same set, obtained by intersecting one-clause sets (alternately `set & str` and `set & set`)
                acc = SpecifierSet(cl[0] if cl else "", prereleases=ov)
                for i, c in enumerate(cl[1:]):
                    acc = acc & (c if i % 2 == 0 else SpecifierSet(c))
                return acc if cl[1:] else acc & SpecifierSet("")
            return SpecifierSet(",".join(cl), prereleases=ov)

        members = [Specifier(c) for c in cl]

        def names_pre(m):
            if m.operator == "!=":
                return False
            t = m.version[:-2] if (m.operator == "==" and m.version.endswith(".*")) else m.version
            try:
                return Version(t).is_prerelease
            except InvalidVersion:      # ===<text that is no version> names no pre-release
                return False

        auto = any([names_pre(m) for m in members])     # eager: every member must be in the domain
        empty = how != "spec" and len(set(members)) == 0

        def enabled(ov, p):
            """the effective setting as the statement words it: call argument, else override, else a member names a pre-release"""
            if p is not None:
                return p
            if ov is not None:
                return ov
            return auto

        combos = [(None if o is None else bool(o), None if p is None else bool(p)) for o, p in inp.get("combos", ALL9)]
        rng = random.Random(inp.get("seed", 0))
        kinds = [rng.choice("ssvvSV") for _ in inp["cands"]]
        vers = [Version(c) for c in inp["cands"]]

        def matches_enabled(v, s=None):
            # judged member by member on the set's own members (that a set is the conjunction of the clauses it
            # was built from is C05's law, not this one's)
            ms = members if (s is None or how == "spec") else list(s)
            return all(m.contains(v, prereleases=True) for m in ms)

        if law == "gate":
            for ov, p in combos:
                s = mk(ov)
                for c, v in zip(inp["cands"], vers):
                    got = s.contains(c, prereleases=p)
                    en = enabled(ov, p)
                    if v.is_prerelease and got and not en:
                        return False, f"{s!r}.contains({c!r}, prereleases={p}) matched a pre-release although pre-releases are not enabled"
                    want = matches_enabled(v, s) if (en or not v.is_prerelease) else False
                    if got != want:
                        return False, f"{s!r}.contains({c!r}, prereleases={p}) = {got}, the policy says {want} (enabled={en})"
                    if p is None and (c in s) != got:
                        return False, f"`in` disagrees with contains on {s!r}, {c!r}"
            return True, ""

        if law == "monotone_final":
            for c, v in zip(inp["cands"], vers):
                res = {}
                for ov, p in itertools.product(OVS, OVS):
                    try:
                        res[(ov, p)] = mk(ov).contains(c, prereleases=p)
                    except InvalidVersion:      # DESIGN §8 row 5 (before C03-fix-3): `.prereleases` of ===<text> raised
                        res[(ov, p)] = "raises InvalidVersion"
                if not v.is_prerelease and len(set(res.values())) != 1:
                    return False, f"final release {c!r}: contains depends on the pre-release setting: {res}"
                if any(isinstance(r, str) for r in res.values()):
                    raise G.Domain("a member raises")
                for (ov, p), r in res.items():
                    if r and not res[(ov, True)]:
                        return False, f"{c!r} matched with prereleases={p} (override {ov}) but not with prereleases=True"
                    if r and p is None and not res[(True, None)]:
                        return False, f"{c!r} matched with override {ov} but not with override True"
            return True, ""

        if law == "filter_contains":
            for ov, p in combos:
                s = mk(ov)
                items = G.mk_items(inp["cands"], kinds)
                out = list(s.filter(items, prereleases=p))
                got = G.index_list(items, out)
                if got.startswith("unordered"):
                    return False, f"{s!r}.filter({inp['cands']!r}, prereleases={p}) does not yield the very objects passed in, in input order: {got}"
                accepted = [i for i, x in enumerate(items) if s.contains(x, prereleases=p)]
                if empty:
                    eff = p if p is not None else ov
                    finals = [i for i, v in enumerate(vers) if not v.is_prerelease]
                    if eff is True:
                        want = list(range(len(items)))
                    elif eff is False:
                        want = finals
                    else:
                        want = finals if finals else list(range(len(items)))
                    rule = f"empty set, effective setting {eff}"
                elif how == "spec" and p is None and ov is None and not auto:
                    matching = [i for i, x in enumerate(items) if s.contains(x, prereleases=True)]
                    finals = [i for i in matching if not vers[i].is_prerelease]
                    want = finals if finals else matching
                    rule = "specifier with no setting: matching pre-releases iff no final release matched"
                else:
                    want = accepted
                    rule = "exactly the items contains() accepts, in input order"
                wants = ",".join(map(str, want))
                if got != wants:
                    return False, (f"{s!r}.filter({inp['cands']!r}, prereleases={p}) yields items {got or '[]'}, "
                                   f"expected {wants or '[]'} ({rule})")
                # the answer is a function of the *sequence of items*, however the caller hands it over and consumes it:
                # tuple / one-shot generator / iterator input, a second pass, a partially consumed result
                for name, arg in (("tuple", tuple(items)), ("generator", (x for x in items)), ("iterator", iter(list(items)))):
                    alt = G.index_list(items, list(s.filter(arg, prereleases=p)))
                    if alt != got:
                        return False, f"{s!r}.filter(<{name} of {inp['cands']!r}>, prereleases={p}) yields {alt or '[]'}, a list gives {got or '[]'}"
                again = G.index_list(items, list(s.filter(items, prereleases=p)))
                if again != got:
                    return False, f"{s!r}.filter: a second pass over the same list yields {again or '[]'}, the first {got or '[]'}"
                it = iter(s.filter(items, prereleases=p))
                head = [x for _, x in zip(range(len(out) // 2), it)]
                if [id(x) for x in head] != [id(x) for x in out[: len(out) // 2]]:
                    return False, f"{s!r}.filter: the first {len(out) // 2} items of a partially consumed result differ from the full result"
                if len(items) != len(inp["cands"]):
                    return False, "filter() changed the length of the list it was given"
            return True, ""

        if law == "installed_base":
            if how == "spec":
                raise G.Domain("installed= is a SpecifierSet argument")
            for ov, p in combos:
                s = mk(ov)
                for c0, v, kind in zip(inp["cands"], vers, kinds):
                    c = G.mk_items([c0], [kind])[0]          # str, Version, or an instance of a subclass of either
                    got = s.contains(c, prereleases=p, installed=True)
                    if not v.is_prerelease:
                        want = s.contains(c, prereleases=p)
                    elif not (enabled(ov, p) if not empty else (p if p is not None else ov)):
                        want = False
                    else:
                        want = s.contains(v.base_version, prereleases=p)
                    if got != want:
                        return False, f"{s!r}.contains({c!r}, prereleases={p}, installed=True) = {got}, expected {want} (base version {v.base_version})"
            return True, ""

        if law == "history":
            ov0, h, p = inp.get("ov0"), inp.get("hist", ""), inp.get("p")
            if any(ch not in "~01c" for ch in h):
                raise G.Domain("history alphabet")
            obj = mk(ov0)
            twin = mk(ov0)                 # an equal object that is never assigned to
            derived = (obj & SpecifierSet(">=0")) if how != "spec" else None
            before = (twin.prereleases, str(twin)), (None if derived is None else (derived._prereleases, str(derived)))
            G.apply_hist(obj, h or "-")
            fresh = mk(last_write(ov0, h or "-"))

            def observe(o):
                items = G.mk_items(inp["cands"], kinds)
                try:
                    pre = o.prereleases
                except InvalidVersion:
                    pre = "InvalidVersion"
                return (pre, [o.contains(c, prereleases=p) for c in inp["cands"]],
                        G.index_list(items, list(o.filter(items, prereleases=p))), str(o), hash(o), o == fresh)
            a, b = observe(obj), observe(fresh)
            if a != b:
                return False, f"after history {h!r} on {mk(ov0)!r}: {a[:4]} but a fresh object with the last assigned value gives {b[:4]}"
            after = (twin.prereleases, str(twin)), (None if derived is None else (derived._prereleases, str(derived)))
            if before != after:
                return False, "assigning .prereleases on one object changed another object"
            return True, ""
        raise KeyError(law)


def _has_raw_arbitrary(clauses):
    from props.C05 import _has_raw
    try:
        return _has_raw(clauses)
    except Exception:
        return False


from srccall import with_src  # noqa: E402

# translated source: Specifier.prereleases / .contains / .filter (with _coerce_version and the operator dispatch of
# _get_operator) are proved equal to S.Spec.prereleases / contains / filter, the functions the C06 theorems are about
PROP = with_src(C06(), share=10, functions=["Specifier.prereleases", "Specifier.contains", "Specifier.filter"],
                module="PkgProofs.Props.Src.SpecContains",
                theorems=["Src.contains_translated", "Src.Specifier.prereleases_eq_model", "Src._coerce_version_eq_model",
                          "Src._coerce_version_str", "Src.get_operator_call_eq_model", "Src.Specifier.contains_eq_model",
                          "Src.Specifier.filter_eq_model"])
# x5: the SpecifierSet side — the `prereleases` property (getter and setter), `contains` / `__contains__` and `filter` —
# proved equal to SSet.SpecSet.prereleases / contains / filter for every iteration order of the frozenset
PROP = with_src(PROP, share=10,
                functions=["SpecifierSet.prereleases", "SpecifierSet.prereleases__set", "SpecifierSet.contains",
                           "SpecifierSet.__contains__", "SpecifierSet.filter"],
                module=["PkgProofs.Props.Src.SSetRead", "PkgProofs.Props.Src.SSetFilter"],
                theorems=["Src.read_translated", "Src.filter_translated", "Src.ordered_of_perm",
                          "Src.SpecifierSet.prereleases_eq_model", "Src.SpecifierSet.prereleases__set_eq_model",
                          "Src.SpecifierSet.contains_eq_model", "Src.SpecifierSet.contains_str",
                          "Src.SpecifierSet.__contains___eq_model", "Src.SpecifierSet.filter_eq_model"])

# history-insensitivity on shared objects (harness/histlaw.py): programs over Specifier / SpecifierSet / Requirement / Marker
# objects; extra read-only calls and work on unrelated objects built from the same texts must not change any answer
import histlaw  # noqa: E402
PROP = histlaw.attach(PROP, every=25)
