"""C18 — parse_email is a lossless, typed partition of the document."""
from __future__ import annotations

import json
import re

import core
from gen import metadata as G
from run import Prop


def _M():
    from packaging import metadata
    return metadata


class _Any:
    """wildcard for a value whose exact text the statement does not fix (mojibake, folded lines)"""
    def __repr__(self):
        return "<any str>"


ANY = _Any()


def _is_utf8(b):
    try:
        b.decode("utf-8", "strict")
        return True
    except UnicodeDecodeError:
        return False


def expected_parse(doc):
    """(raw, unparsed) that the *statement* demands for a generated document, or None when the document is
    outside the part of the input space where the statement fixes the answer.  Written from the statement and
    the core metadata specification (gen.metadata.SPEC_FIELDS), not from packaging.metadata."""
    groups = {}          # lower name -> list of (value | ANY, decodable)
    if doc["nl"] not in ("\n", "\r\n") or doc.get("lone"):
        return None
    for name, (kind, x) in doc["headers"]:
        if not re.fullmatch(r"[\x21-\x39\x3b-\x7e]+", name):
            return None
        ok = True
        if kind == "t":
            if "\n" in x or "\r" in x:
                return None
            val = x.lstrip(" \t")
        elif kind == "q":
            val = G._q(x)
        elif kind == "f":
            val = ANY
        elif kind == "x":
            b = bytes.fromhex(x)
            if b"\n" in b or b"\r" in b:
                return None
            if _is_utf8(b):
                val = b.decode("utf-8").lstrip(" \t")
            else:
                val, ok = ANY, False
        else:
            return None
        groups.setdefault(name.lower(), []).append((val, ok))
    raw, unparsed = {}, {}
    for lname, vs in groups.items():
        values = [v for v, _ in vs]
        key = G.HEADER_TO_KEY.get(lname)
        if not all(ok for _, ok in vs) or key is None:
            unparsed[lname] = values
            continue
        typ = G.SPEC_FIELDS[key][1]
        if typ == "str":
            if len(values) == 1:
                raw[key] = values[0]
            else:
                unparsed[lname] = values
        elif typ == "list":
            raw[key] = values
        elif typ == "keywords":
            if len(values) == 1:
                raw[key] = ANY if values[0] is ANY else [k.strip() for k in values[0].split(",")]
            else:
                unparsed[lname] = values
        elif typ == "dict":
            if any(v is ANY for v in values):
                return None
            pairs = []
            for v in values:
                label, _, url = v.partition(",")
                pairs.append((label.strip(), url.strip()))
            if len({l for l, _ in pairs}) == len(pairs):
                raw[key] = dict(pairs)
            else:
                unparsed[lname] = values
    body = doc["body"]
    if body is not None:
        kind, x = body
        if kind == "t":
            payload, ok = x, True
        else:
            b = bytes.fromhex(x)
            if _is_utf8(b):
                payload, ok = b.decode("utf-8"), True
            elif doc["bytes"]:
                payload, ok = b, False
            else:
                return None           # str input: the caller decoded; the statement says nothing about escapes
        if not ok:
            # undecodable body: unparsed, together with a Description header if there is one
            if "description" in raw:
                unparsed.setdefault("description", []).append(raw.pop("description"))
            unparsed.setdefault("description", []).append(payload)
        elif payload:
            if "description" in raw:
                unparsed.setdefault("description", []).extend([raw.pop("description"), payload])
            elif "description" in unparsed:
                unparsed["description"].append(payload)
            else:
                raw["description"] = payload
    return raw, unparsed


def _eq(got, exp):
    if exp is ANY:
        return isinstance(got, (str, list))
    if isinstance(exp, list):
        return isinstance(got, list) and len(got) == len(exp) and all(_eq(g, e) for g, e in zip(got, exp))
    if isinstance(exp, dict):
        return isinstance(got, dict) and list(got.items()) == list(exp.items())
    return type(got) is type(exp) and got == exp


def compare_parse(got, exp):
    (raw, unparsed), (eraw, eunparsed) = got, exp
    both = set(unparsed) & {G.email_name(k) for k in raw if k in G.SPEC_FIELDS}
    if both:
        return False, f"{sorted(both)} is in both dicts"
    for side, g, e in (("raw", raw, eraw), ("unparsed", unparsed, eunparsed)):
        if set(g) != set(e):
            return False, f"{side} keys {sorted(g)} != expected {sorted(e)}"
        for k in e:
            if not _eq(g[k], e[k]):
                return False, f"{side}[{k!r}] = {g[k]!r}, expected {e[k]!r}"
    return True, ""


# --------------------------------------------------------------------------- round trip
def serialise(raw, as_bytes, body_description=True):
    """a RawMetadata dict as RFC 822 headers (one line per value), UTF-8 for bytes"""
    lines = []
    body = None
    for key, v in raw.items():
        name, typ, _ = G.SPEC_FIELDS[key]
        if key == "description" and body_description:
            body = v
        elif typ == "str":
            lines.append(f"{name}: {v}")
        elif typ == "list":
            lines.extend(f"{name}: {x}" for x in v)
        elif typ == "keywords":
            lines.append(f"{name}: " + ", ".join(v))
        elif typ == "dict":
            lines.extend(f"{name}: {label}, {url}" for label, url in v.items())
    text = "".join(l + "\n" for l in lines)
    if body is not None:
        text += "\n" + body
    return text.encode("utf-8") if as_bytes else text


LINE_TEXTS = ["x", "A summary", "héllo wörld", "日本語", "", "a,b", "=?utf-8?q?caf=C3=A9?=", "tab\there", "ſtrange K",
              "semi;colon: colon", "a\x0bb", "a\x0cb", "a\x1cb\x1db\x1eb", "a\x85b", "a b c", "x  y", "Name: nested",
              "\U0001f600", "a\x00b", "ünï"]


def roundtrip_dict(rng):
    """a RawMetadata dict whose values are representable in one header line each"""
    raw = {}
    keys = list(G.SPEC_FIELDS)
    p = rng.choice([0.1, 0.3, 0.6, 1.0])
    for key in keys:
        if rng.random() >= p:
            continue
        typ = G.SPEC_FIELDS[key][1]
        if key == "description":
            raw[key] = rng.choice(LINE_TEXTS[:1] + ["line one\nline two", "para\n\npara\n", "Name: x\n\nbody", " lead", "x"])
        elif typ == "str":
            raw[key] = rng.choice(LINE_TEXTS)
        elif typ == "list":
            raw[key] = [rng.choice(LINE_TEXTS) for _ in range(rng.choice([1, 1, 2, 3]))]
        elif typ == "keywords":
            raw[key] = [rng.choice(["a", "b c", "ünï", "", "x-y", "1"]) for _ in range(rng.choice([1, 2, 3]))]
        elif typ == "dict":
            labels = rng.sample(["Home", "Docs", "ünï", "", "Bug Tracker", "a;b"], rng.choice([1, 2, 3]))
            raw[key] = {l: rng.choice(["https://example.com", "u,v", "", "https://ü.example/ä"]) for l in labels}
    return raw


def _representable(raw):
    for key, v in raw.items():
        typ = G.SPEC_FIELDS[key][1]     # KeyError: not a RawMetadata key
        vals = [v] if typ == "str" else (list(v) if typ != "dict" else [a for kv in v.items() for a in kv])
        if typ != "str" and not v:
            raise ValueError("empty collection has no header form")
        for x in vals:
            if not isinstance(x, str):
                raise TypeError(key)
            if key == "description":
                if not x or any(0xD800 <= ord(c) <= 0xDFFF for c in x):
                    raise ValueError("empty body")
                continue
            if "\n" in x or "\r" in x or x != x.strip() or any(0xD800 <= ord(c) <= 0xDFFF for c in x):
                raise ValueError("not a single stripped line")
            if typ == "keywords" and "," in x:
                raise ValueError("comma in keyword")
        if typ == "dict" and any("," in l for l in v):
            raise ValueError("comma in label")


UTF8_EDGES = ["7f", "80", "bf", "c0 80", "c1 bf", "c2 80", "c2 7f", "c2 c0", "df bf", "e0 9f bf", "e0 a0 80", "e0 a0 7f",
              "ec bf bf", "ed 9f bf", "ed a0 80", "ed bf bf", "ee 80 80", "ef bf bf", "ef bf", "f0 8f bf bf", "f0 90 80 80",
              "f0 90 80", "f1 80 80 80", "f3 bf bf bf", "f4 8f bf bf", "f4 90 80 80", "f5 80 80 80", "f8 88 80 80 80",
              "ff", "fe", "e2 82 ac", "f0 9f 98 80", "00", "41", "c3 a9", "e2 28 a1", "f0 28 8c bc", "f0 90 28 bc", "f0 28 8c 28"]


def utf8_probe(rng):
    """byte strings around every boundary of the UTF-8 well-formedness table, alone and in context"""
    out = b""
    for _ in range(rng.choice([1, 1, 1, 2, 3])):
        r = rng.random()
        if r < 0.7:
            out += bytes.fromhex(rng.choice(UTF8_EDGES))
        elif r < 0.85:
            out += bytes(rng.randrange(256) for _ in range(rng.choice([1, 2, 3, 4])))
        else:
            out += chr(rng.choice([0x7f, 0x80, 0x7ff, 0x800, 0xd7ff, 0xe000, 0xffff, 0x10000, 0x10ffff, rng.randrange(0x110000 - 0x800) ])
                       ).encode("utf-8", "surrogatepass")
    return out


class C18(Prop):
    id = "C18"
    lean_modules = ["PkgProofs.Props.C18"]
    generated = ["MetadataTables"]
    theorems = [
        "C18.mapping_table", "C18.partition", "C18.no_loss_no_invention", "C18.typed", "C18.unparsed_keeps_all_values",
        "C18.repeat_single_use_unparsed", "C18.dup_label_unparsed", "C18.bad_bytes_unparsed", "C18.bad_chunk_invalid", "C18.bad_chunk_not_utf8",
        "Utf8.utf8Decode_iff", "Utf8.utf8Decode_none_iff",
        "C18.unknown_unparsed", "C18.string_once_raw", "C18.list_field_raw", "C18.body_description_rule",
        "C18.empty_body_ignored", "C18.bad_body_rule", "C18.raises_iff", "C18.never_raises",
        "C18.result_order_irrelevant", "C18.loop_partition", "C18.loop_no_invention", "C18.raw_lookup_iff",
        "C18.unparsed_lookup_iff", "C18.parseProjectUrls_nil", "C18.emailToRaw_values_nodup", "C18.tables_disjoint",
    ]
    rule = ("header documents built from a structure: known (30) / unknown / MIME header names in random case and order, "
            "repeats, values plain / non-ASCII / RFC 2047 word / folded / raw bytes incl. invalid and boundary UTF-8, "
            "LF and CRLF, with / without / undecodable body, multipart and message/rfc822 content types, str and bytes input, "
            "lone surrogates in str input; the model is fed what email.parser presents (names, values or Header chunks, payload). "
            "non-trivial = parse_email returns")
    trusted = ["email.parser / email.header.decode_header (standard library): their output is the model's input",
               "the interpreter's str.isspace table (regenerated) for keyword / label stripping"]
    partial = ["the RFC 822 parser is the standard library's: the model and theorems start at its output",
               "serialise -> parse round trip is a law on the real code (values representable in one header line, non-empty "
               "collections, keywords and labels without commas), not a theorem"]
    budget = {"quick": (3000, 2500), "thorough": (50000, 40000)}

    # ---- correspondence
    def gen_cases(self, rng, n):
        for i in range(n):
            if rng.random() < 0.12:
                yield ("email.utf8", [G.enc_bytes(utf8_probe(rng))])
                continue
            doc = G.document(rng, wellformed=rng.random() < 0.4)
            if not doc["bytes"] and rng.random() < 0.03:
                doc["lone"] = True
            a = self._args(doc)
            if a is not None:
                yield ("email.parse", a)

    def _args(self, doc):
        text = G.build_doc(doc)
        order, hdrs, payload = G.extract_doc(text)
        return [core.enc(json.dumps(doc)), order, hdrs, payload]

    def real(self, op, args):
        M = _M()
        if op == "email.utf8":
            b = bytes(int(x, 16) for x in args[0].split(".")) if args[0] != "-" else b""
            try:
                return "ok " + core.enc(b.decode("utf8", "strict"))
            except UnicodeDecodeError:
                return "err UnicodeDecodeError"
        doc = json.loads(core.dec(args[0]))
        if self._args(doc) != list(args):
            raise RuntimeError("stale extraction for this document")
        text = G.build_doc(doc)
        try:
            raw, unparsed = M.parse_email(text)
        except Exception as e:
            return "raw " + type(e).__name__
        return "ok " + G.enc_parsed(raw, unparsed)

    def nontrivial(self, op, args, out):
        return out.startswith("ok")

    def branch(self, op, args, out):
        if op == "email.utf8":
            return "utf8:" + out[:3]
        if not out.startswith("ok"):
            return out
        raw, unp = out[3:].split("|")
        hdrs = args[2]
        lab = ("bytes" if args[3][0] == "b" else "str") + (":hdrobj" if ">h" in hdrs else "")
        lab += ":raw" + str(min(3, len([x for x in raw.split(";") if x]))) + ":unp" + str(min(3, len([x for x in unp.split(";") if x])))
        if ">d" in raw:
            lab += ":urls"
        if core.enc("description") + ">" in unp:
            lab += ":desc-unparsed"
        return lab

    def judge(self, op, args, real, model, driver):
        if op == "email.utf8":
            return None
        doc = json.loads(core.dec(args[0]))
        if real.startswith("raw"):
            return ("never_raises", {"doc": doc})
        if expected_parse(doc) is not None:
            return ("partition_no_loss", {"doc": doc})
        return None

    # ---- laws
    def gen_laws(self, rng, n):
        k = 0
        while k < n:
            r = rng.random()
            if r < 0.45:
                doc = G.document(rng, wellformed=True)
                if rng.random() < 0.15:
                    # a stray MIME header is one more unknown header: it must not change what happens to the body
                    name = G.spell_name(rng, rng.choice(G.MIME_HEADERS))
                    val = rng.choice(["base64", "quoted-printable", "8bit", "7bit", "x-uuencode", "binary", "text/plain; charset=latin-1",
                                      "multipart/mixed; boundary=x", "message/rfc822", "1.0"])
                    doc["headers"].insert(rng.randrange(len(doc["headers"]) + 1), [name, ["t", val]])
                    if rng.random() < 0.6:
                        doc["body"] = ["t", rng.choice(["aGVsbG8=\n", "!!!!", "a=3Db", "caf=C3=A9 =\nx", "begin 644 f\n#86)C\n`\nend\n",
                                                        "plain text", "--x\n\nfoo\n--x--\n"])]
                yield ("partition_no_loss", {"doc": doc})
            elif r < 0.7:
                doc = G.document(rng, wellformed=rng.random() < 0.3)
                if not doc["bytes"] and rng.random() < 0.05:
                    doc["lone"] = True
                yield ("never_raises", {"doc": doc})
            else:
                yield ("roundtrip", {"raw": roundtrip_dict(rng), "bytes": rng.random() < 0.5, "body": rng.random() < 0.8})
            k += 1

    def check_law(self, law, inp):
        M = _M()
        if law == "partition_no_loss":
            doc = inp["doc"]
            exp = expected_parse(doc)
            if exp is None:
                return True, "outside the law's domain"
            text = G.build_doc(doc)
            try:
                # an earlier caller parsed the same document and changed the dicts and lists it was handed: they are its own
                prev = M.parse_email(text)
                for d in prev:
                    for v in list(d.values()):
                        if isinstance(v, list):
                            v.append("scribble"); v.reverse()
                        elif isinstance(v, dict):
                            v["scribble"] = "scribble"
                    d["scribble"] = ["scribble"]
            except Exception:
                pass
            try:
                got = M.parse_email(text)
            except Exception as e:
                return False, f"raises {type(e).__name__}"
            return compare_parse(got, exp)
        if law == "never_raises":
            text = G.build_doc(inp["doc"])
            try:
                raw, unparsed = M.parse_email(text)
            except Exception as e:
                return False, f"raises {type(e).__name__}: {str(e)[:80]}"
            both = set(unparsed) & {G.email_name(k) for k in raw if k in G.SPEC_FIELDS}
            if both:
                return False, f"{sorted(both)} is in both dicts"
            return True, ""
        if law == "roundtrip":
            raw = inp["raw"]
            _representable(raw)
            d = raw.get("description", "")
            body = inp["body"] or "\n" in d or "\r" in d or d != d.strip()     # otherwise it cannot be a header line
            text = serialise(raw, inp["bytes"], body_description=body)
            try:
                got, unparsed = M.parse_email(text)
            except Exception as e:
                return False, f"raises {type(e).__name__}"
            if unparsed:
                return False, f"unparsed not empty: {unparsed!r}"
            if got != raw:
                k = next((k for k in set(got) | set(raw) if got.get(k) != raw.get(k)))
                return False, f"{k}: {got.get(k)!r} != {raw.get(k)!r}"
            return True, ""
        raise KeyError(law)


from srccall import with_src  # noqa: E402

# translated source: the two splitting helpers of parse_email are proved equal to Email.parseKeywords / parseProjectUrls
PROP = with_src(C18(), share=12, functions=["_parse_keywords", "_parse_project_urls"], module="PkgProofs.Props.Src.Metadata",
                theorems=["Src._parse_keywords_translated", "Src._parse_keywords_eq_model",
                          "Src._parse_project_urls_translated", "Src._parse_project_urls_eq_model"])
# x7: `_get_payload` — the `email.message.Message` enters as data (`obj "Message" …`, PkgModel/PyX7.lean: the header list, `get_payload()`
# and `get_payload(decode=True)` with / without a Content-Transfer-Encoding header, so that the `del msg[...]` of the source is
# observable) — proved equal to Email.getPayload (the payload step that Email.parseEmail inlines)
PROP = with_src(PROP, share=12, functions=["_get_payload"], module=["PkgProofs.Props.Src.X7Payload"],
                theorems=["Src._get_payload_translated", "Src._get_payload_eq_model_str", "Src._get_payload_eq_model_bytes"])
# x9: `parse_email` itself, regenerated from metadata.py — the standard-library parser call is an oracle call (key: the source text of
# the call) answering the message value (header list + payloads, the data `Email.Doc` takes), `decode_header` / `make_header` answers
# are data carried by the `Header` values, the visiting order `sorted(frozenset(parsed.keys()))` is computed (`Src.orderOf`, a
# permutation of the deduplicated names), the two dicts of lists are functional updates, and the message mutation of `_get_payload`
# (`del msg["content-transfer-encoding"]`) reaches the `except ValueError` branch through `_get_payload__io` (message = state of
# PyX9.SM) — proved equal to `Email.parseEmail doc (Src.orderOf doc)` up to look-ups in the two result dicts (Src.DictRel/UnparsedRel)
PROP = with_src(PROP, share=8, functions=["parse_email", "_get_payload__io"], module=["PkgProofs.Props.Src.ParseEmail"],
                theorems=["Src.parse_email_translated", "Src._get_payload__io_translated", "Src._get_payload__io_eq_model",
                          "Src.orderOf_perm", "Src.parse_email_eq_model"])
