"""C04 — Specifier operators obey their algebraic laws (evaluated on the real code alone, pre-releases enabled)."""
from __future__ import annotations

import random

import core
from gen import specrel as R
from gen import versions as GV
from props import C03 as _C03
from run import Prop


def _api():
    from packaging import specifiers as sp
    from packaging.version import Version
    return sp, Version


ORDER_OPS = ["~=", "==", "!=", "<=", ">=", "<", ">"]        # every operator other than ===

LAWS = ["ne_is_not_eq", "compat_is_ge_and_prefix", "equal_candidates_same_answer", "local_label_blind",
        "ge_upward_closed", "le_downward_closed", "ge_le_cover", "lt_within_le", "gt_within_ge",
        "lt_gt_exclude_V_and_its_locals"]


def respell_equal(rng, c):
    """another structure that is the same version: trailing zeros of the release added or removed"""
    d = dict(c)
    k = rng.randrange(3)
    if k == 0:
        d["release"] = list(c["release"]) + [0] * rng.choice([1, 2, 3])
    elif k == 1:
        d["release"] = GV._strip0(c["release"]) or [0]
    return d


def vtext(rng, v, wild=False):
    return GV.spell(rng, v, ws=False) + (".*" if wild else "")


class C04(_C03.C03):
    """shares the correspondence (generator, real glue, judge) with C03; the laws are its own"""
    id = "C04"
    lean_modules = ["PkgProofs.Props.C04"]
    theorems = [
        "C04.ne_is_not_eq", "C04.compat_is_ge_and_prefix", "C04.respects_version_eq", "C04.local_blind",
        "C04.ge_up_closed", "C04.le_down_closed", "C04.ge_or_le", "C04.lt_sub_le", "C04.gt_sub_ge",
        "C04.lt_gt_exclude_V_and_its_locals",
        "AL.admits_key", "AL.admits_local_blind", "AL.cmp_split", "AL.zpp_strip", "C03.compare_eq_spec",
    ]
    partial = [
        "laws 2 and 5-10 are stated for clause texts that scan as a version, laws 3 and 4 for C03.Clause (which "
        "C03.parse_readClause + readClause_sound give for everything Specifier.__init__ stores); the scanners "
        "themselves are tied to the regexes by correspondence and C12",
        "`===` is exempt from laws 3 and 4 by the statement (string equality)"]
    rule = ("correspondence as C03; laws: tuples chosen jointly — one V for two or three clauses, candidates related "
            "by equality (other spelling, trailing zeros), by adding a local label, or by the version order; "
            "every law evaluated on Specifier.contains(…, prereleases=True) of the real code only")
    budget = {"quick": (12000, 40000), "thorough": (300000, 800000)}

    def gen_cases(self, rng, n):
        """related tuples: the clauses and candidates one law relates, sent as separate contains() cases"""
        self._label = {}
        out = 0
        while out < n:
            k = rng.random()
            if k < 0.2:
                for case in super().gen_cases(rng, 1):
                    yield case
                    out += 1
                continue
            op = rng.choice(ORDER_OPS)
            wild = op in ("==", "!=") and rng.random() < 0.4
            v = R.spec_version(rng, op, wild)
            c = R.candidate_near(rng, v)
            if k < 0.4:            # == / != on the same V;  ~= with >= and the prefix clause
                if rng.random() < 0.5:
                    v = R.spec_version(rng, "==", wild)
                    clauses = [("==", v, wild), ("!=", v, wild)]
                else:
                    v = R.spec_version(rng, "~=", False)
                    p = dict(v, release=v["release"][:-1], pre=None, post=None, dev=None)
                    clauses = [("~=", v, False), (">=", v, False), ("==", p, True)]
                c = R.candidate_near(rng, v)
                cands = [c]
            elif k < 0.6:          # equal candidates
                clauses, cands = [(op, v, wild)], [c, respell_equal(rng, c)]
            elif k < 0.8:          # with and without local label
                v["local"] = None
                if c["local"] is None:
                    c["local"] = R.local(rng)
                clauses, cands = [(op, v, wild)], [c, R.pub(c)]
            else:                  # V itself, V + label, against < <= >= >
                v = R.spec_version(rng, "<", False)
                clauses = [(o, v, False) for o in ("<", "<=", ">=", ">")]
                cands = [respell_equal(rng, v), dict(respell_equal(rng, v), local=R.local(rng)), R.candidate_near(rng, v)]
            for (o, vv, w) in clauses:
                s = R.spell_clause(rng, o, vv, w)
                for cc in cands:
                    args = [core.enc(s), "~", core.enc(GV.spell(rng, cc)), "1"]
                    self._label[("spec.contains", tuple(args))] = "tuple:" + R.situation(o, vv, w, cc)
                    yield ("spec.contains", args)
                    out += 1

    def judge(self, op, args, real, model, driver):
        # C04 is a set of laws, not a refinement: a model/implementation disagreement is not by itself a violation of
        # it; the runner then evaluates the laws with a four-fold budget (run.py) to look for a failing tuple
        return None

    def gen_laws(self, rng, n):
        k = 0
        while k < n:
            law = LAWS[k % len(LAWS)] if rng.random() < 0.5 else rng.choice(LAWS)
            k += 1
            seed = rng.randrange(1 << 30)
            if law == "ne_is_not_eq":
                wild = rng.random() < 0.5
                v = R.spec_version(rng, "==", wild)
                yield law, {"v": v, "wild": wild, "c": R.candidate_near(rng, v), "seed": seed}
            elif law == "compat_is_ge_and_prefix":
                v = R.spec_version(rng, "~=", False)
                yield law, {"v": v, "c": R.candidate_near(rng, v), "seed": seed}
            elif law == "equal_candidates_same_answer":
                op = rng.choice(ORDER_OPS)
                wild = op in ("==", "!=") and rng.random() < 0.4
                v = R.spec_version(rng, op, wild)
                yield law, {"op": op, "v": v, "wild": wild, "c": R.candidate_near(rng, v), "seed": seed}
            elif law == "local_label_blind":
                op = rng.choice(ORDER_OPS)
                wild = op in ("==", "!=") and rng.random() < 0.4
                v = R.spec_version(rng, op, wild)
                v["local"] = None
                c = R.candidate_near(rng, v)
                if c["local"] is None:
                    c["local"] = R.local(rng)
                yield law, {"op": op, "v": v, "wild": wild, "c": c, "seed": seed}
            elif law in ("ge_upward_closed", "le_downward_closed"):
                v = R.spec_version(rng, ">=", False)
                c1 = R.candidate_near(rng, v)
                c2 = R.candidate_near(rng, v) if rng.random() < 0.6 else GV.neighbour(rng, c1)
                yield law, {"v": v, "c1": c1, "c2": c2, "seed": seed}
            elif law in ("ge_le_cover", "lt_within_le", "gt_within_ge"):
                v = R.spec_version(rng, "<", False)
                yield law, {"v": v, "c": R.candidate_near(rng, v), "seed": seed}
            else:
                v = R.spec_version(rng, "<", False)
                yield law, {"v": v, "loc": (R.local(rng) if rng.random() < 0.7 else None), "seed": seed}

    def check_law(self, law, inp):
        if law in ("contains_vs_spec_strings", "contains_vs_admits"):
            return super().check_law(law, inp)
        sp, Version = _api()
        rng = random.Random(inp["seed"])
        v = R.norm(inp["v"])
        if not R.valid_struct(v):
            raise ValueError("outside the domain")

        def S(op, text):
            return sp.Specifier(op + text)

        def cand(key="c"):
            c = R.norm(inp[key])
            if not R.valid_struct(c):
                raise ValueError("outside the domain")
            return c

        def has(spec, text):
            return spec.contains(text, prereleases=True)

        if law == "ne_is_not_eq":
            wild = bool(inp["wild"])
            if not R.valid_clause("==", v, wild):
                raise ValueError("outside the domain")
            e, n = S("==", vtext(rng, v, wild)), S("!=", vtext(rng, v, wild))
            cs = GV.spell(rng, cand())
            a, b = has(e, cs), has(n, cs)
            return a != b, f"{e} and {n} both answer {a} for {cs!r}"
        if law == "compat_is_ge_and_prefix":
            if not R.valid_clause("~=", v, False):
                raise ValueError("outside the domain")
            t = compat_text(inp)
            rng = random.Random(inp["seed"] + 1)
            comp, ge = S("~=", t), S(">=", vtext(rng, v))
            p = {"epoch": v["epoch"], "release": v["release"][:-1], "pre": None, "post": None, "dev": None, "local": None}
            pre = S("==", vtext(rng, p, True))
            cs = GV.spell(rng, cand())
            a, b, c2 = has(comp, cs), has(ge, cs), has(pre, cs)
            return a == (b and c2), f"{comp} answers {a} for {cs!r} but {ge} answers {b} and {pre} answers {c2}"
        if law in ("equal_candidates_same_answer", "local_label_blind"):
            op, wild = inp["op"], bool(inp["wild"])
            if op not in ORDER_OPS or not R.valid_clause(op, v, wild):
                raise ValueError("outside the domain")
            spec = S(op, vtext(rng, v, wild))
            c = cand()
            if law == "equal_candidates_same_answer":
                a, b = GV.spell(rng, c), GV.spell(rng, respell_equal(rng, c))
                if not Version(a) == Version(b):
                    raise ValueError("candidates not equal")
                what = "compare equal"
            else:
                if v["local"] is not None or c["local"] is None:
                    raise ValueError("outside the domain")
                a, b = GV.spell(rng, c), GV.spell(rng, R.pub(c))
                what = "differ only by the local label"
            ra, rb = has(spec, a), has(spec, b)
            return ra == rb, f"{spec}: {a!r} -> {ra} but {b!r} -> {rb} although they {what}"
        if law in ("ge_upward_closed", "le_downward_closed"):
            if v["local"] is not None:
                raise ValueError("outside the domain")
            t1, t2 = GV.spell(rng, cand("c1")), GV.spell(rng, cand("c2"))
            lo, hi = (t1, t2) if Version(t1) <= Version(t2) else (t2, t1)
            if law == "ge_upward_closed":
                spec = S(">=", vtext(rng, v))
                ok = (not has(spec, lo)) or has(spec, hi)
                return ok, f"{spec} matches {lo!r} but not the larger {hi!r}"
            spec = S("<=", vtext(rng, v))
            ok = (not has(spec, hi)) or has(spec, lo)
            return ok, f"{spec} matches {hi!r} but not the smaller {lo!r}"
        if law in ("ge_le_cover", "lt_within_le", "gt_within_ge"):
            if v["local"] is not None:
                raise ValueError("outside the domain")
            cs = GV.spell(rng, cand())
            if law == "ge_le_cover":
                g, l = S(">=", vtext(rng, v)), S("<=", vtext(rng, v))
                return has(g, cs) or has(l, cs), f"neither {g} nor {l} matches {cs!r}"
            strict, weak = ("<", "<=") if law == "lt_within_le" else (">", ">=")
            s1, s2 = S(strict, vtext(rng, v)), S(weak, vtext(rng, v))
            return (not has(s1, cs)) or has(s2, cs), f"{s1} matches {cs!r} but {s2} does not"
        if law == "lt_gt_exclude_V_and_its_locals":
            if v["local"] is not None:
                raise ValueError("outside the domain")
            loc = inp["loc"]
            c = dict(respell_equal(rng, v), local=loc)
            if not R.valid_struct(c):
                raise ValueError("outside the domain")
            cs = GV.spell(rng, c)
            for op in ("<", ">"):
                spec = S(op, vtext(rng, v))
                if has(spec, cs):
                    return False, f"{spec} matches {cs!r}, which is V itself" + (" with a local label" if loc else "")
            return True, ""
        raise KeyError(law)


def compat_text(inp):
    """the version text of the ``~=`` clause the law ``compat_is_ge_and_prefix`` builds for this input"""
    return vtext(random.Random(inp["seed"]), R.norm(inp["v"]))


PROP = C04()
