"""C16 — platform tag sequences match the platform's real compatibility range; ELF / libc probes decode what is encoded."""
from __future__ import annotations

import io
import os
import struct

import core
import tagsglue as T
from gen import elfgen as E
from run import Prop

_drv = None


def drv():
    global _drv
    if _drv is None:
        _drv = core.Driver()
    return _drv


# ---------------------------------------------------------------- protocol
def enc_bytes(b):
    return "~" if b is None else "h" + b.hex()


def _tri(x):
    return "n" if x is None else ("t" if x else "f")


def enc_policy(pol):
    if pol is None:
        return "a"
    if pol["kind"] == "legacy":
        return "g" + _tri(pol.get("m1")) + _tri(pol.get("m2010")) + _tri(pol.get("m2014"))
    return "f" + _tri(pol["default"]) + "".join(f":{r[0]},{r[1]},{core.enc(r[2])},{_tri(r[3])}" for r in pol["rules"])


def model_confstr(c):
    return None if (c is None or c.startswith("raise:")) else c


def enc_lcfg(d):
    exe = None if d["exe_hex"] is None else bytes.fromhex(d["exe_hex"])
    return "k" + ";".join([enc_bytes(exe), core.enc(model_confstr(d["confstr"])), core.enc(d["ctypes_version"]),
                           enc_policy(d["policy"]), core.enc(d["ld_stderr"]), T.enc_json(d)])


def dec_lcfg(a):
    return T.dec_json(a[1:].split(";")[5])


def enc_pair(v):
    return "~" if v is None else f"v{v[0]},{v[1]}"


def dec_pair(a):
    return None if a == "~" else tuple(int(x) for x in a[1:].split(","))


def out_list(xs):
    return "ok " + ",".join(core.enc(x) for x in xs)


# ---------------------------------------------------------------- pools
ARCH_LISTS = [["x86_64"], ["x86_64"], ["i686"], ["aarch64"], ["armv8l", "armv7l"], ["armv7l"], ["ppc64le"], ["s390x"],
              ["riscv64"], ["loongarch64"], ["ppc64"], ["mips"], [], ["x86_64", "aarch64"], ["x86_64", "x86_64"],
              ["i686", "x86_64"], ["armv6l"], ["X86_64"], ["aarch64", "x86_64"], ["mips", "s390x"]]
GLIBC = [(2, 4), (2, 5), (2, 6), (2, 11), (2, 12), (2, 13), (2, 16), (2, 17), (2, 18), (2, 31), (2, 36), (2, 50), (2, 51),
         (2, 60), (3, 0), (3, 1), (3, 5), (4, 2), (2, 0), (2, 3), (1, 5), (0, 3)]
EXE_KINDS = ["x86_64", "i686", "armhf", "armhf2", "armel", "arm-eabi4", "arm-eabi7", "arm-eabi0d", "arm-eabiff", "arm-eabi5-nofloat-bits", "arm-be", "arm64as32", "aarch64", "s390x",
             "i386-be", "x32"]
GET_PLATFORMS = ["linux-x86_64", "linux-aarch64", "linux-armv7l", "linux-i686", "linux-ppc64le", "linux-mips", "linux-armv8l",
                 "macosx-10.9-x86_64", "win-amd64", "linux_x86_64", "linux", "linux-", "linux-s390x", "Linux-x86_64",
                 "linux-x86.64", "linux-riscv64", "linux-armv6l"]
MAC_ARCHS = ["x86_64", "arm64", "i386", "ppc64", "ppc", "intel", "universal2", "universal", "fat", "fat64", "riscv", "", "X86_64"]
MAC_VERSIONS = [(10, 0), (10, 3), (10, 4), (10, 5), (10, 6), (10, 7), (10, 9), (10, 15), (10, 16), (10, 17), (11, 0), (11, 3),
                (12, 0), (12, 6), (13, 1), (14, 5), (15, 0), (20, 1), (9, 5), (0, 0), (10, 30)]
MULTIARCH = ["arm64-iphoneos", "arm64-iphonesimulator", "x86_64-iphonesimulator", "arm64_iphoneos", "a-b-c", ""]
IOS_VERSIONS = [(11, 4), (12, 0), (12, 1), (12, 9), (12, 10), (13, 0), (13, 4), (14, 8), (14, 9), (14, 10), (15, 0), (15, 8),
                (16, 7), (17, 10), (18, 2), (0, 0), (30, 1)]


def gen_policy(rng):
    r = rng.random()
    if r < 0.4:
        return None
    if r < 0.75:
        rules = []
        for _ in range(rng.choice([0, 1, 2, 4])):
            M, m = rng.choice(GLIBC + [(2, 5), (2, 12), (2, 17), (2, 17), (2, 30), (2, 49)])
            rules.append([M, m, rng.choice(["x86_64", "i686", "aarch64", "armv7l", "armv8l", "s390x"]),
                          rng.choice([None, True, False, False])])
        pol = {"kind": "func", "default": rng.choice([None, None, True, False]), "rules": rules}
        if rng.random() < 0.4:        # hook plus stale legacy attributes in the same module
            pol.update({"m1": rng.choice([None, True, False, False]), "m2010": rng.choice([None, True, False, False]),
                        "m2014": rng.choice([None, True, False, False])})
        return pol
    return {"kind": "legacy", "m1": rng.choice([None, True, False]), "m2010": rng.choice([None, True, False]),
            "m2014": rng.choice([None, True, False])}


def gen_confstr(rng, G=None):
    M, m = G or rng.choice(GLIBC)
    r = rng.random()
    if r < 0.7:
        return f"glibc {M}.{m}"
    if r < 0.8:
        return f"glibc {M}.{m}" + rng.choice(["-2014.11", ".9", "+git", " ", "\n", ".0.1", "x"])
    return rng.choice([None, "raise:OSError", "raise:ValueError", "raise:AttributeError", f"glibc{M}.{m}", f"glibc {M}.{m} extra",
                       f"  glibc   {M}.{m}  ", f"glibc\t{M}.{m}", "glibc junk", f"glibc {M}", f"glibc .{m}", f"glibc {M}.",
                       "", " ", f"GNU\x1flibc {M}.{m}", f"glibc 0{M}.0{m}", f"{M}.{m}"])


def gen_exe(rng, archs=None):
    r = rng.random()
    if r < 0.05:
        return None
    if archs and r < 0.78:
        want = ("armhf" if "armv7l" in archs else "i686" if "i686" in archs else
                {"aarch64": "aarch64", "s390x": "s390x"}.get(archs[0] if archs else "", "x86_64"))
        return E.build(E.exe_for(want))
    if r < 0.9:
        return E.build(E.exe_for(rng.choice(EXE_KINDS)))
    return E.build(E.gen_desc(rng, huge=False))


MUSL_OUT = ["musl libc (x86_64)\nVersion 1.2.2\nDynamic Program Loader\nUsage: /lib/ld-musl-x86_64.so.1 [options] [--] pathname",
            "musl libc (aarch64)\nVersion 1.1.24\nDynamic Program Loader", "musl libc\nVersion 1.2.5-git-3\n",
            "\n\n  musl libc (i386)  \r\n\tVersion 2.0.10\r\n", "musl\x0bVersion 1.0", "musl\nVersion 1.", "musl\nversion 1.2.2",
            "musl libc\n\nDynamic\nVersion 1.2.2", "glibc\nVersion 1.2.2", "musl libc (x86_64)", "", "mus\nVersion 1.2",
            "musl libc\nVersion 1.2.2.3", "musl libc\n Version 10.200", "musl\x1cVersion 3.4\x1d", "musl\x1fVersion 3.4",
            "musllibc\nVersion 01.02", "musl\nVersion 1.x", "musl\nVersion  1.2", "xmusl\nVersion 1.2", "musl\nVersion 1.2\nVersion 9.9"]


def gen_lcfg(rng, archs=None, musl=None):
    exe = gen_exe(rng, archs)
    ld = rng.choice(MUSL_OUT)
    if musl or (musl is None and rng.random() < 0.35):
        base = E.exe_for(rng.choice(["x86_64", "aarch64", "i686", "armhf", "s390x"]))
        interp = rng.choice(E.INTERPS).encode()
        if rng.random() < 0.55:          # a working musl system, any version
            interp = rng.choice(E.INTERPS[:2] + ["/lib/ld-musl-armhf.so.1\0"]).encode()
            ld = f"musl libc ({rng.choice(['x86_64', 'aarch64'])})\nVersion {rng.choice([0, 1, 1, 1, 2])}.{rng.randrange(0, 40)}" + \
                rng.choice(["", ".2", ".24", "-git"]) + "\nDynamic Program Loader\n"
        exe = E.build(E.with_interp(base, interp)) if rng.random() < 0.8 else E.build(E.gen_desc(rng, huge=False))
    return {"exe_hex": None if exe is None else exe.hex(), "confstr": gen_confstr(rng),
            "ctypes_version": rng.choice([None, None, None, "2.28", "2.17", "", "junk"]),
            "policy": gen_policy(rng), "ld_stderr": ld}


# ---------------------------------------------------------------- the statement, computed independently (laws)
LEGACY = {(2, 5): "manylinux1", (2, 12): "manylinux2010", (2, 17): "manylinux2014"}   # PEP 513 / 571 / 599
ABI_FREE_ARCHS = {"x86_64", "aarch64", "ppc64", "ppc64le", "s390x", "loongarch64", "riscv64"}


def exe_props(exe):
    """(class, data, machine, flags) of an executable, read with struct; None if it is not an ELF file"""
    if exe is None or len(exe) < 16 or exe[:4] != b"\x7fELF" or exe[4] not in (1, 2) or exe[5] not in (1, 2):
        return None
    o = "<" if exe[5] == 1 else ">"
    fmt = o + ("HHIIIII" if exe[4] == 1 else "HHIQQQI") + "HHH"
    if len(exe) < 16 + struct.calcsize(fmt):
        return None
    f = struct.unpack_from(fmt, exe, 16)
    return exe[4], exe[5], f[1], f[6]


def spec_abi_ok(archs, exe):
    p = exe_props(exe)
    if "armv7l" in archs:     # hard-float EABI5 32-bit little-endian ARM
        return p is not None and p[0] == 1 and p[1] == 1 and p[2] == 40 and p[3] & 0xFF000000 == 0x05000000 and p[3] & 0x400 == 0x400
    if "i686" in archs:
        return p is not None and p[0] == 1 and p[1] == 1 and p[2] == 3
    return any(a in ABI_FREE_ARCHS for a in archs)


def spec_allowed(pol, M, m, arch):
    if pol is None:
        return True
    if pol["kind"] == "func":
        for r in pol["rules"]:
            if (r[0], r[1], r[2]) == (M, m, arch):
                return True if r[3] is None else bool(r[3])
        return True if pol["default"] is None else bool(pol["default"])
    v = {(2, 5): pol.get("m1"), (2, 12): pol.get("m2010"), (2, 17): pol.get("m2014")}.get((M, m))
    return True if v is None else bool(v)


def last_minor(M):
    from packaging import _manylinux
    return _manylinux._LAST_GLIBC_MINOR[M]


def spec_manylinux(G, archs, pol, abi_ok):
    if not abi_ok:
        return []
    out = []
    for a in archs:
        floor = (2, 5) if a in ("x86_64", "i686") else (2, 17)
        for M in reversed(range(floor[0], G[0] + 1)):
            hi = G[1] if M == G[0] else last_minor(M)
            lo = floor[1] if M == floor[0] else 0
            for m in reversed(range(lo, hi + 1)):
                if spec_allowed(pol, M, m, a):
                    out.append(f"manylinux_{M}_{m}_{a}")
                    if (M, m) in LEGACY:
                        out.append(f"{LEGACY[(M, m)]}_{a}")
    return out


def spec_musllinux(V, archs):
    return [f"musllinux_{V[0]}_{m}_{a}" for a in archs for m in reversed(range(0, V[1] + 1))]


MAC_TABLE = {   # arch: (first version, last version, formats most specific first)
    "x86_64": ((10, 4), None, ["x86_64", "intel", "fat64", "fat32", "universal2", "universal"]),
    "i386": ((10, 4), None, ["i386", "intel", "fat32", "fat", "universal"]),
    "ppc64": ((10, 4), (10, 5), ["ppc64", "fat64", "universal"]),
    "ppc": (None, (10, 6), ["ppc", "fat32", "fat", "universal"]),
    "arm64": (None, None, ["arm64", "universal2"]),
    "intel": (None, None, ["intel", "universal"]),
}


def spec_mac_formats(v, arch):
    if arch not in MAC_TABLE:
        return [arch]
    lo, hi, fs = MAC_TABLE[arch]
    return fs if (lo is None or lo <= v) and (hi is None or v <= hi) else []


def spec_mac(v, arch):
    out = []
    if v[0] == 10:
        for m in reversed(range(0, v[1] + 1)):
            out += [f"macosx_10_{m}_{f}" for f in spec_mac_formats((10, m), arch)]
    elif v[0] >= 11:
        for M in reversed(range(11, v[0] + 1)):
            out += [f"macosx_{M}_0_{f}" for f in spec_mac_formats((M, 0), arch)]
        for m in reversed(range(4, 17)):
            fs = spec_mac_formats((10, m), arch) if arch == "x86_64" else ["universal2"]
            out += [f"macosx_10_{m}_{f}" for f in fs]
    return out


IOS_MAX_MINOR = 9


def spec_ios(v, multiarch):
    ma = multiarch.replace("-", "_")
    if v[0] < 12:
        return []
    out = [f"ios_{v[0]}_{m}_{ma}" for m in reversed(range(0, v[1] + 1))]
    for M in reversed(range(12, v[0])):
        out += [f"ios_{M}_{m}_{ma}" for m in reversed(range(0, IOS_MAX_MINOR + 1))]
    return out


def tag_version(tag, prefix):
    """(major, minor) of manylinux_M_m_arch / musllinux_… / macosx_… / ios_… ; legacy aliases via PEP constants"""
    for v, name in LEGACY.items():
        if tag.startswith(name + "_"):
            return v
    assert tag.startswith(prefix + "_"), tag
    parts = tag[len(prefix) + 1:].split("_")
    return int(parts[0]), int(parts[1])


def no_repeats(xs):
    return len(set(xs)) == len(xs)


def first_diff(got, want):
    for i, (g, w) in enumerate(zip(got, want)):
        if g != w:
            return f"at index {i}: got {g}, statement says {w}"
    return f"lengths differ: got {len(got)} {got[:4]}…{got[-2:]}, statement says {len(want)} {want[:4]}…{want[-2:]}"


def lprobe(G, pol, exe, confstr=None):
    return {"exe_hex": None if exe is None else exe.hex(), "confstr": confstr or f"glibc {G[0]}.{G[1]}",
            "ctypes_version": None, "policy": pol, "ld_stderr": ""}


def real_manylinux(G, archs, pol, exe, via=None):
    from packaging import _manylinux
    with T.probes(dict(lprobe(G, pol, exe), policy_via=via)):
        return list(_manylinux.platform_tags(list(archs)))


def real_musllinux(V, archs, arch_kind="x86_64"):
    from packaging import _musllinux
    exe = E.build(E.with_interp(E.exe_for(arch_kind), b"/lib/ld-musl-x86_64.so.1\0"))
    d = {"exe_hex": exe.hex(), "confstr": None, "ctypes_version": None, "policy": None,
         "ld_stderr": f"musl libc (x86_64)\nVersion {V[0]}.{V[1]}.3\nDynamic Program Loader\n"}
    with T.probes(d):
        return list(_musllinux.platform_tags(list(archs)))


# ---------------------------------------------------------------- ELF expectations (independent decoder of a description)
SSIZE_MAX = 2**63 - 1


def decode_bytes(data):
    """what a byte string encodes, decoded with struct independently of packaging:
    ('invalid',) or ('ok', (class, data, machine, flags, phoff, phentsize, phnum), interp)
    interp: None | bytes | 'invalid' (an offset or size no file object can take)"""
    if len(data) < 16 or data[:4] != b"\x7fELF" or data[4] not in (1, 2) or data[5] not in (1, 2):
        return ("invalid",)
    cls, dat = data[4], data[5]
    o = "<" if dat == 1 else ">"
    fmt = o + ("HHIIIII" if cls == 1 else "HHIQQQI") + "HHH"
    if len(data) < 16 + struct.calcsize(fmt):
        return ("invalid",)
    f = struct.unpack_from(fmt, data, 16)
    fields = (cls, dat, f[1], f[6], f[4], f[8], f[9])
    psize = 32 if cls == 1 else 56
    interp = None
    for i in range(fields[6]):
        pos = fields[4] + fields[5] * i
        if pos > SSIZE_MAX:
            interp = "invalid"
            break
        raw = data[pos:pos + psize]
        if len(raw) < psize:
            continue
        if cls == 1:
            ptype, off, _, _, fsz = struct.unpack(o + "IIIII", raw[:20])
        else:
            ptype, _, off, _, _, fsz = struct.unpack(o + "IIQQQQ", raw[:40])
        if ptype != 3:
            continue
        interp = "invalid" if (off > SSIZE_MAX or fsz > SSIZE_MAX) else data[off:off + fsz].strip(b"\0")
        break
    return ("ok", fields, interp)


def elf_expect(d):
    """expectation for the file built from description ``d``; when nothing overwrites the header the fields are
    taken from the description itself (what was *encoded*), otherwise from the bytes"""
    data = E.build(d)
    exp = decode_bytes(data)
    cls = d["cls"]
    hlen = 16 + (30 if cls == 1 else 42)
    clobbered = any(p["at"] < hlen for p in d.get("phs", [])) or any(b[0] < hlen for b in d.get("blobs", [])) or \
        d.get("size", hlen) < hlen
    if exp[0] == "ok" and not clobbered:
        w = 8 * (4 if cls == 1 else 8)
        fields = (cls, d["data"], d.get("machine", 62) & 0xFFFF, d.get("flags", 0) & 0xFFFFFFFF,
                  d.get("phoff", 0) & ((1 << w) - 1), d.get("phentsize", 32 if cls == 1 else 56) & 0xFFFF,
                  d.get("phnum", 0) & 0xFFFF)
        exp = ("ok", fields, exp[2])
    return exp, data


def real_elf_parse(data):
    from packaging._elffile import ELFFile, ELFInvalid
    try:
        f = ELFFile(io.BytesIO(data))
    except ELFInvalid:
        return "err ELFInvalid"
    except Exception as e:
        return "raw " + type(e).__name__
    return f"ok {int(f.capacity)},{int(f.encoding)},{int(f.machine)},{f.flags},{f._e_phoff},{f._e_phentsize},{f._e_phnum}"


def real_elf_interp(data):
    from packaging._elffile import ELFFile, ELFInvalid
    try:
        r = ELFFile(io.BytesIO(data)).interpreter
    except ELFInvalid:
        return "err ELFInvalid"
    except Exception as e:
        return "raw " + type(e).__name__
    return "~" if r is None else "ok b" + os.fsencode(r).hex()


class C16(Prop):
    id = "C16"
    lean_modules = ["PkgProofs.Props.C16"]
    generated = ["TagTables"]
    theorems = [
        "C16.legacy_map_is_peps", "C16.manylinux_eq_spec", "C16.no_glibc_empty", "C16.abi_incompatible_empty",
        "C16.veto_omits", "C16.legacy_alias_adjacent", "C16.manylinux_within_range",
        "C16.musl_eq_spec", "C16.musl_absent_empty", "C16.mac_eq_spec", "C16.mac_formats_eq_table",
        "C16.ios_eq_spec", "C16.ios_newer_superset_partial", "C16.ios_superset_fails_above_9", "C16.ios_within_range",
        "C16.elf_decode_encode", "C16.ph_decode_encode", "C16.interp_is_first_pt_interp",
        "C16.interp_none_without_pt_interp", "C16.glibc_parse_render", "C16.musl_parse_render",
        "C16.manylinux_newer_superset", "C16.manylinux_newer_superset_model", "C16.musl_newer_superset",
        "C16.mac_newer_superset_10", "C16.mac_newer_superset_11",
        "C16.manylinux_nodup", "C16.musl_nodup", "C16.mac_nodup", "C16.ios_nodup",
    ]
    rule = ("manylinux/musllinux/_linux_platforms under probes injected at the os.confstr / ctypes / sys.modules['_manylinux'] / "
            "sys.executable (scratch ELF file) / subprocess boundary: glibc 0.x-4.x with the floors 2.4/2.5/2.16/2.17/2.18 and the "
            "legacy versions on purpose, junk version strings, every policy protocol, ABI-matching and mismatching executables; "
            "mac_platforms 10.0-10.30 / 11-20 x architectures, ios_platforms 11.x-30.x x multiarch, with explicit arguments and "
            "with platform.mac_ver / ios_ver probes; ELFFile on synthetic headers of the four layouts built with struct "
            "(random fields, program-header tables, truncation, bad magic/class, offsets up to 2^64-1); libc version strings; "
            "non-trivial = non-empty list / successfully decoded header; distinct = distinct protocol lines")
    trusted = ["str.split/strip/splitlines, \\d and int() restricted to ASCII inputs",
               "io.BytesIO as the file object (seek up to 2^63-1, short reads past the end); os.fsdecode/fsencode round trip",
               "the _manylinux policy function is pure; config values as generated"]
    partial = ["newer-system-superset for iOS is proved only for an older minor <= 9 (ios_newer_superset_partial); the negation at "
               "14.10 -> 15.0 is proved (ios_superset_fails_above_9) and is a known finding; superset across version regimes "
               "(glibc 2.x -> 3.x, macOS 10.x -> 11) is outside the statement",
               "manylinux refinement assumes glibc major >= 2 (for a 0.x/1.x version string the code enumerates that major "
               "series down to x.0; modelled and compared, outside the statement)",
               "the policy/ABI probes of _linux_platforms are tied by correspondence only (the musl version-string round trip is musl_parse_render)",
               "real-file semantics of seek/read beyond 2^63 (OSError/ValueError, MemoryError for huge sizes) are not modelled"]
    budget = {"quick": (3000, 2500), "thorough": (50000, 40000)}

    # ---- correspondence
    def gen_cases(self, rng, n):
        k = 0
        while k < n:
            r = rng.random()
            if r < 0.22:
                archs = rng.choice(ARCH_LISTS)
                yield ("plat.manylinux", [enc_lcfg(gen_lcfg(rng, archs, musl=False)), T.enc_strs(archs)])
            elif r < 0.32:
                archs = rng.choice(ARCH_LISTS)
                yield ("plat.musllinux", [enc_lcfg(gen_lcfg(rng, archs, musl=True)), T.enc_strs(archs)])
            elif r < 0.42:
                gp = rng.choice(GET_PLATFORMS)
                yield ("plat.linux", [enc_lcfg(gen_lcfg(rng, None)), core.enc(gp), core.encb(rng.random() < 0.4)])
            elif r < 0.47:
                d = gen_lcfg(rng)
                yield ("plat.glibc", [core.enc(model_confstr(d["confstr"])), core.enc(d["ctypes_version"]), T.enc_json(d)])
            elif r < 0.52:
                M, m = rng.choice(GLIBC)
                s = rng.choice([f"{M}.{m}", f"{M}.{m}-2014.11", f"{M}.{m}.9", f"{M}", f".{m}", f"{M}.", "", f" {M}.{m}", f"{M}.{m}\n",
                                f"0{M}.00{m}", f"{M}..{m}", f"{M},{m}", f"v{M}.{m}", f"{M}.{m}x", "1" * 30 + ".7"])
                yield ("plat.glibc_parse", [core.enc(s)])
            elif r < 0.57:
                yield ("plat.musl_parse", [core.enc(rng.choice(MUSL_OUT))])
            elif r < 0.70:
                v = rng.choice(MAC_VERSIONS) if rng.random() < 0.7 else (rng.choice([10, 10, 11, 12, 13, 14]), rng.randrange(0, 20))
                arch = rng.choice(MAC_ARCHS)
                if rng.random() < 0.75:
                    yield ("plat.mac", [core.enc("12.1"), core.enc("arm64"), core.enc(""), "0", enc_pair(v), core.enc(arch)])
                else:
                    vs = rng.choice([f"{v[0]}.{v[1]}", f"{v[0]}.{v[1]}.3", f"{v[0]}", "10.16", "10.16.1", "", "x.y", f"{v[0]}.{v[1]}\n"])
                    c0 = rng.choice(["11.2.3\n", "12.0\n", "10.16\n", "13\n", "", "junk"])
                    yield ("plat.mac", [core.enc(vs), core.enc(arch), core.enc(c0), "0",
                                        rng.choice(["~", enc_pair(v)]), rng.choice(["~", core.enc(arch)])])
            elif r < 0.74:
                yield ("plat.mac_formats", [enc_pair(rng.choice(MAC_VERSIONS)), core.enc(rng.choice(MAC_ARCHS))])
            elif r < 0.76:
                yield ("plat.mac_arch", [core.enc(rng.choice(MAC_ARCHS + ["ppc7400", "ppc64le"])), core.encb(rng.random() < 0.5)])
            elif r < 0.86:
                v = rng.choice(IOS_VERSIONS) if rng.random() < 0.7 else (rng.randrange(10, 20), rng.randrange(0, 14))
                ma = rng.choice(MULTIARCH)
                if rng.random() < 0.75:
                    yield ("plat.ios", [core.enc("15.0"), core.enc("arm64-iphoneos"), enc_pair(v), core.enc(ma)])
                else:
                    rel = rng.choice([f"{v[0]}.{v[1]}", f"{v[0]}.{v[1]}.1", f"{v[0]}", "", "x"])
                    yield ("plat.ios", [core.enc(rel), core.enc(ma), rng.choice(["~", enc_pair(v)]), rng.choice(["~", core.enc(ma)])])
            else:
                data = E.build(E.gen_desc_huge(rng) if rng.random() < 0.2 else E.gen_desc(rng))
                yield (rng.choice(["elf.parse", "elf.interp", "elf.interp"]), [enc_bytes(data)])
            k += 1

    def real(self, op, args):
        try:
            return self._real(op, args)
        except MemoryError:
            # an absurd p_filesz/size read from an on-disk ELF makes CPython try to allocate the buffer: an
            # environment limit (depends on the machine's memory), outside the model and outside the property
            return core.RESOURCE_LIMIT

    def _real(self, op, args):
        from packaging import _manylinux, _musllinux, tags
        try:
            if op in ("plat.manylinux", "plat.musllinux"):
                archs = T.dec_ostrs(args[1])
                with T.probes(dec_lcfg(args[0])):
                    mod = _manylinux if op == "plat.manylinux" else _musllinux
                    return out_list(list(mod.platform_tags(archs)))
            if op == "plat.linux":
                d = dict(dec_lcfg(args[0]))
                d["get_platform"] = core.dec(args[1])
                with T.probes(d):
                    return out_list(list(tags._linux_platforms(is_32bit=args[2] == "1")))
            if op == "plat.glibc":
                with T.probes(T.dec_json(args[2])):
                    v = _manylinux._get_glibc_version()
                return f"{v[0]},{v[1]}"
            if op == "plat.glibc_parse":
                import warnings
                with warnings.catch_warnings():
                    warnings.simplefilter("ignore")
                    v = _manylinux._parse_glibc_version(core.dec(args[0]))
                return f"{v[0]},{v[1]}"
            if op == "plat.musl_parse":
                v = _musllinux._parse_musl_version(core.dec(args[0]))
                return "~" if v is None else f"{v.major},{v.minor}"
            if op == "plat.mac":
                vs, cpu, c0 = (core.dec(a) for a in args[:3])
                with T.probes({"mac_ver": [vs, cpu], "mac_ver_compat0": c0}):
                    return out_list(list(tags.mac_platforms(dec_pair(args[4]), core.dec(args[5]))))
            if op == "plat.mac_formats":
                return out_list(tags._mac_binary_formats(dec_pair(args[0]), core.dec(args[1])))
            if op == "plat.mac_arch":
                return core.enc(tags._mac_arch(core.dec(args[0]), is_32bit=args[1] == "1"))
            if op == "plat.ios":
                with T.probes({"ios": [core.dec(args[0]), core.dec(args[1])]}):
                    return out_list(list(tags.ios_platforms(dec_pair(args[2]), core.dec(args[3]))))
        except MemoryError:
            raise
        except Exception as e:
            return "raw " + type(e).__name__
        if op == "elf.parse":
            return real_elf_parse(bytes.fromhex(args[0][1:]))
        if op == "elf.interp":
            return real_elf_interp(bytes.fromhex(args[0][1:]))
        raise KeyError(op)

    def nontrivial(self, op, args, out):
        return out.startswith("ok ") and len(out) > 3 or (op in ("plat.glibc", "plat.glibc_parse", "plat.musl_parse", "plat.mac_arch")
                                                        and not out.startswith(("-1", "~", "raw")))

    def branch(self, op, args, out):
        if out.startswith(("raw", "err")):
            return op + ":" + out[:24]
        if op.startswith("elf"):
            return op + ":" + ("none" if out == "~" else "ok")
        if op in ("plat.glibc", "plat.glibc_parse", "plat.musl_parse"):
            return op + ":" + ("none" if out in ("-1,-1", "~") else "version")
        if op == "plat.mac_arch":
            return op
        n = out.count(",") + 1 if len(out) > 3 else 0
        size = "0" if n == 0 else "1-9" if n < 10 else "10-99" if n < 100 else "100+"
        extra = ""
        if op in ("plat.manylinux", "plat.linux"):
            d = dec_lcfg(args[0])
            pol = d["policy"]
            extra = ":policy=" + ("none" if pol is None else pol["kind"])
            if op == "plat.manylinux" and len(out) > 3:
                extra += ":legacy" if "6d.61.6e.79.6c.69.6e.75.78.32" in out or "6d.61.6e.79.6c.69.6e.75.78.31" in out else ""
        if op in ("plat.mac", "plat.ios"):
            extra = ":explicit" if args[-2] != "~" else ":probed"
        return f"{op}{extra}:n={size}"

    def judge(self, op, args, real, model, driver):
        if op == "plat.manylinux":
            d = dec_lcfg(args[0])
            import re
            m = re.fullmatch(r"glibc (\d+)\.(\d+)", d["confstr"] or "")
            if m and int(m.group(1)) >= 2:
                return ("manylinux_is_spec", {"glibc": [int(m.group(1)), int(m.group(2))], "archs": T.dec_ostrs(args[1]),
                                              "policy": d["policy"], "exe_hex": d["exe_hex"]})
        if op == "plat.mac" and args[4] != "~" and args[5] != "~":
            return ("mac_is_spec", {"v": list(dec_pair(args[4])), "arch": core.dec(args[5])})
        if op == "plat.ios" and args[2] != "~" and args[3] != "~":
            return ("ios_is_spec", {"v": list(dec_pair(args[2])), "multiarch": core.dec(args[3])})
        if op in ("elf.parse", "elf.interp"):
            return ("elf_bytes_decode", {"hex": args[0][1:]})
        return None

    # ---- laws on the real code
    def gen_laws(self, rng, n):
        # boundary grid first
        for G in [(2, 4), (2, 5), (2, 16), (2, 17), (2, 18), (3, 0)]:
            for archs, exe in ((["x86_64"], "x86_64"), (["i686"], "i686"), (["aarch64"], "aarch64"),
                               (["armv8l", "armv7l"], "armhf"), (["armv7l"], "armel")):
                yield ("manylinux_is_spec", {"glibc": list(G), "archs": archs, "policy": None,
                                             "exe_hex": E.build(E.exe_for(exe)).hex()})
        for v in [(10, 15), (10, 16), (11, 0), (12, 0)]:
            for arch in ("x86_64", "arm64", "universal2"):
                yield ("mac_is_spec", {"v": list(v), "arch": arch})
        for M in range(12, 19):
            yield ("ios_is_spec", {"v": [M, rng.randrange(0, 9)], "multiarch": "arm64-iphoneos"})
            yield ("newer_superset", {"family": "ios", "v": [M, rng.randrange(0, 9)], "arch": "arm64-iphoneos"})
        k = 0
        while k < n:
            r = rng.random()
            if r < 0.25:
                archs = rng.choice(ARCH_LISTS)
                G = rng.choice([g for g in GLIBC if g[0] >= 2]) if rng.random() < 0.7 else (rng.choice([2, 2, 3]), rng.randrange(0, 60))
                exe = gen_exe(rng, archs)
                yield ("manylinux_is_spec", {"glibc": list(G), "archs": archs, "policy": gen_policy(rng),
                                             "exe_hex": None if exe is None else exe.hex()})
            elif r < 0.33:
                yield ("musllinux_is_spec", {"v": [rng.choice([1, 1, 2]), rng.randrange(0, 30)],
                                             "archs": rng.choice(ARCH_LISTS)})
            elif r < 0.45:
                v = rng.choice(MAC_VERSIONS) if rng.random() < 0.6 else (rng.choice([10, 10, 11, 12, 13, 15]), rng.randrange(0, 20))
                yield ("mac_is_spec", {"v": list(v), "arch": rng.choice(MAC_ARCHS)})
            elif r < 0.55:
                v = rng.choice(IOS_VERSIONS) if rng.random() < 0.6 else (rng.randrange(10, 20), rng.randrange(0, 10))
                yield ("ios_is_spec", {"v": list(v), "multiarch": rng.choice(MULTIARCH)})
            elif r < 0.75:
                fam = rng.choice(["manylinux", "musllinux", "mac", "mac", "ios", "ios"])
                if fam == "manylinux":
                    v, arch = (rng.choice([2, 2, 2, 3]), rng.randrange(0, 49)), rng.choice(["x86_64", "i686", "aarch64", "armv7l", "s390x"])
                elif fam == "musllinux":
                    v, arch = (rng.choice([1, 2]), rng.randrange(0, 30)), rng.choice(["x86_64", "aarch64"])
                elif fam == "mac":
                    v, arch = (rng.choice(MAC_VERSIONS) if rng.random() < 0.5 else (rng.choice([10, 11, 12, 14]), rng.randrange(0, 18))), \
                        rng.choice(MAC_ARCHS)
                else:
                    v, arch = (rng.randrange(12, 19), rng.randrange(0, 13)), rng.choice(MULTIARCH)
                yield ("newer_superset", {"family": fam, "v": list(v), "arch": arch})
            elif r < 0.9:
                yield ("elf_decodes_what_it_encodes", {"desc": E.gen_desc(rng)})
            else:
                M, m = rng.choice(GLIBC) if rng.random() < 0.5 else (rng.randrange(0, 5), rng.randrange(0, 400))
                yield ("libc_string_decodes", {"kind": rng.choice(["glibc", "glibc-confstr", "musl"]), "v": [M, m],
                                               "junk": rng.choice(["", "-2014.11", ".9", " x", "+", "\n", ".1.2", "a", "_1"])})
            k += 1

    def check_law(self, law, inp):
        try:
            return self._check_law(law, inp)
        except T.OutOfDomain as e:
            return True, "outside the law's domain: " + str(e)

    def _check_law(self, law, inp):
        from packaging import _manylinux, _musllinux, tags
        if law == "manylinux_is_spec":
            G, archs, pol = tuple(inp["glibc"]), inp["archs"], inp["policy"]
            exe = None if inp["exe_hex"] is None else bytes.fromhex(inp["exe_hex"])
            if G[0] < 2 or not all(T.is_ascii(a) for a in archs):
                raise T.OutOfDomain("glibc major < 2 / non-ASCII")
            got = real_manylinux(G, archs, pol, exe)
            want = spec_manylinux(G, archs, pol, spec_abi_ok(archs, exe))
            if got != want:
                return False, f"manylinux tags for glibc {G} archs {archs}: " + first_diff(got, want)
            if pol is not None:
                # the same policy module installed on the import path but not imported by anyone yet
                got2 = real_manylinux(G, archs, pol, exe, via="path")
                if got2 != want:
                    return False, (f"manylinux tags for glibc {G} archs {archs} with the _manylinux policy module installed "
                                   f"but not yet imported: " + first_diff(got2, want))
            return self._invariants(got, "manylinux", G, archs)
        if law == "musllinux_is_spec":
            V, archs = tuple(inp["v"]), inp["archs"]
            got = real_musllinux(V, archs)
            want = spec_musllinux(V, archs)
            if got != want:
                return False, f"musllinux tags for musl {V} archs {archs}: " + first_diff(got, want)
            return self._invariants(got, "musllinux", V, archs)
        if law == "mac_is_spec":
            v, arch = tuple(inp["v"]), inp["arch"]
            if not T.is_ascii(arch):
                raise T.OutOfDomain("non-ASCII")
            got = list(tags.mac_platforms(v, arch))
            want = spec_mac(v, arch)
            if got != want:
                return False, f"mac_platforms({v}, {arch!r}): " + first_diff(got, want)
            return self._invariants(got, "macosx", v, [arch])
        if law == "ios_is_spec":
            v, ma = tuple(inp["v"]), inp["multiarch"]
            if not T.is_ascii(ma):
                raise T.OutOfDomain("non-ASCII")
            got = list(tags.ios_platforms(v, ma))
            want = spec_ios(v, ma)
            if got != want:
                return False, f"ios_platforms({v}, {ma!r}): " + first_diff(got, want)
            return self._invariants(got, "ios", v, [ma])
        if law == "newer_superset":
            fam, v, arch = inp["family"], tuple(inp["v"]), inp["arch"]
            if not T.is_ascii(arch):
                raise T.OutOfDomain("non-ASCII")
            if fam == "manylinux":
                exe = E.build(E.exe_for("armhf" if arch == "armv7l" else "i686" if arch == "i686" else "x86_64"))
                f = lambda w: real_manylinux(w, [arch], None, exe)
                newer = [(v[0], v[1] + 1), (v[0], v[1] + 7)]
            elif fam == "musllinux":
                f = lambda w: real_musllinux(w, [arch])
                newer = [(v[0], v[1] + 1), (v[0], v[1] + 5)]
            elif fam == "mac":
                f = lambda w: list(tags.mac_platforms(w, arch))
                if v[0] < 10:
                    raise T.OutOfDomain("before macOS 10")
                newer = [(10, v[1] + 1), (10, v[1] + 4)] if v[0] == 10 else [(v[0] + 1, 0), (v[0], v[1] + 1), (v[0] + 3, 2)]
            elif fam == "ios":
                f = lambda w: list(tags.ios_platforms(w, arch))
                newer = [(v[0], v[1] + 1), (v[0] + 1, 0), (v[0] + 2, 3)]
            else:
                raise KeyError(fam)
            old = f(v)
            for w in newer:
                new = set(f(w))
                missing = [t for t in old if t not in new]
                if missing:
                    return False, (f"{fam} {arch}: the tags of {w[0]}.{w[1]} are not a superset of those of {v[0]}.{v[1]}: "
                                   f"{missing[:3]} missing ({len(missing)})")
            return True, ""
        if law in ("elf_decodes_what_it_encodes", "elf_bytes_decode"):
            if law == "elf_bytes_decode":
                data = bytes.fromhex(inp["hex"])
                exp = decode_bytes(data)
            else:
                exp, data = elf_expect(inp["desc"])
            got_h, got_i = real_elf_parse(data), real_elf_interp(data)
            if exp[0] == "invalid":
                ok = got_h == "err ELFInvalid" and got_i == "err ELFInvalid"
                return ok, f"not an ELF file of a known layout, expected ELFInvalid; ELFFile -> {got_h}, interpreter -> {got_i}"
            _, fields, interp = exp
            want_h = "ok " + ",".join(str(x) for x in fields)
            want_i = "err ELFInvalid" if interp == "invalid" else "~" if interp is None else "ok b" + interp.hex()
            if got_h != want_h:
                return False, f"header encodes {want_h}, ELFFile decodes {got_h}"
            if got_i != want_i:
                return False, f"first readable PT_INTERP entry gives {want_i}, ELFFile.interpreter gives {got_i}"
            return True, ""
        if law == "libc_string_decodes":
            kind, (M, m), junk = inp["kind"], inp["v"], inp["junk"]
            if not T.is_ascii(junk) or junk[:1].isdigit():
                raise T.OutOfDomain("junk starts with a digit / non-ASCII")
            if kind == "glibc":
                import warnings
                with warnings.catch_warnings():
                    warnings.simplefilter("ignore")
                    got = tuple(_manylinux._parse_glibc_version(f"{M}.{m}{junk}"))
                return got == (M, m), f"_parse_glibc_version('{M}.{m}{junk}') = {got}"
            if kind == "glibc-confstr":
                if any(c.isspace() for c in junk):
                    raise T.OutOfDomain("white space inside the version field")
                with T.probes({"confstr": f"glibc {M}.{m}{junk}", "ctypes_version": None}):
                    got = tuple(_manylinux._get_glibc_version())
                return got == (M, m), f"confstr 'glibc {M}.{m}{junk}' decoded as {got}"
            if kind == "musl":
                if "\n" in junk or "\r" in junk:
                    raise T.OutOfDomain("line break inside the version line")
                got = _musllinux._parse_musl_version(f"musl libc (x86_64)\nVersion {M}.{m}{junk}\nDynamic Program Loader")
                return got is not None and tuple(got) == (M, m), f"musl 'Version {M}.{m}{junk}' decoded as {got}"
        raise KeyError(law)

    def _invariants(self, got, prefix, running, archs):
        """nothing newer than the running system; no duplicates (when the architectures have none)"""
        for t in got:
            v = tag_version(t, prefix)
            if v > tuple(running):
                return False, f"{t} is newer than the running system {running}"
        if no_repeats(archs) and not no_repeats(got):
            seen = set()
            dup = next(t for t in got if t in seen or seen.add(t))
            return False, f"{dup} is listed twice"
        return True, ""


from srccall import with_src  # noqa: E402

# translated source: _mac_arch / _mac_binary_formats / _parse_glibc_version / _glibc_version_string are proved equal to
# Plat.macArch / macBinaryFormats / parseGlibcVersion / glibcVersionString (the two glibc probes are environment reads)
PROP = with_src(C16(), share=12, functions=["_mac_arch", "_mac_binary_formats", "_parse_glibc_version", "_glibc_version_string"],
                module="PkgProofs.Props.Src.Platform",
                theorems=["Src._mac_arch_translated", "Src._mac_arch_eq_model",
                          "Src._mac_binary_formats_translated", "Src._mac_binary_formats_eq_model",
                          "Src._parse_glibc_version_translated", "Src._parse_glibc_version_eq_model",
                          "Src._glibc_version_string_translated", "Src._glibc_version_string_eq_model"])

# x6: the platform remainder — `_parse_musl_version`, both `platform_tags` of `_manylinux` / `_musllinux` (with `_is_compatible`,
# `_have_compatible_abi`, `_is_linux_armhf/_i686`, `_get_glibc_version`), `_linux_platforms`, `mac_platforms`, `ios_platforms`,
# `tags.platform_tags`, and `ELFFile.__init__` / `.interpreter`; the probes enter through the environment table, the
# theorems are stated for every table that answers as the model's probe record says (Src/PlatEnv.lean, Src/ElfEnv.lean)
X6_FUNCTIONS = ["_parse_musl_version", "_musllinux.platform_tags", "_is_compatible", "_manylinux.platform_tags",
                "_have_compatible_abi", "_get_glibc_version", "_linux_platforms", "mac_platforms", "ios_platforms",
                "tags.platform_tags", "ELFFile.__init__", "ELFFile.interpreter"]
X6_MODULES = ["PkgProofs.Props.Src.PlatAll", "PkgProofs.Props.Src.Elf"]
X6_THEOREMS = ["Src." + t for t in [
    "_parse_musl_version_translated", "_parse_musl_version_eq_model",
    "_musllinux.platform_tags_translated", "_musllinux.platform_tags_eq_model", "linuxEnv_of",
    "_get_glibc_version_translated", "_get_glibc_version_eq_model", "_is_compatible_translated", "_is_compatible_eq_model",
    "_is_linux_armhf_translated", "_is_linux_armhf_eq_model", "_is_linux_i686_translated", "_is_linux_i686_eq_model",
    "_have_compatible_abi_translated", "_have_compatible_abi_eq_model",
    "_manylinux.platform_tags_translated", "_manylinux.platform_tags_eq_model",
    "mac_platforms_translated", "mac_platforms_eq_model", "ios_platforms_translated", "ios_platforms_eq_model",
    "_generic_platforms_translated", "_generic_platforms_eq_model",
    "_linux_platforms_translated", "_linux_platforms_eq_model",
    "tags.platform_tags_translated", "tags.platform_tags_eq_model",
    "ELFFile.__init___translated", "ELFFile.__init___eq_model", "ELFFile.interpreter_translated", "ELFFile.interpreter_eq_model",
    "parse_idx", "ELFFile.init_interpreter_eq_model"]]
PROP = with_src(PROP, share=12, functions=X6_FUNCTIONS, module=X6_MODULES, theorems=X6_THEOREMS)

# x10: `_glibc_version_string_confstr` — what the library does with the answer of `os.confstr("CS_GNU_LIBC_VERSION")`
# (None, wrong number of fields -> None; else the second field), against Plat.glibcVersionStringConfstr
PROP = with_src(PROP, share=12, functions=["_glibc_version_string_confstr"], module=["PkgProofs.Props.Src.PlatConfstr"],
                theorems=["Src._glibc_version_string_confstr_translated", "Src._glibc_version_string_confstr_eq_model",
                          "Src.split_eq_splitWs"])
