"""C09 — Marker string form is canonical and round-trips."""
from __future__ import annotations

import random

import core
from gen import marker_real as R
from gen import markers as G
from run import Prop

# inputs on which the unrepaired code contradicted the statement (findings_proposed/C09.json); they run first on every check
WITNESSES = [
    ("str_text_roundtrip", {"marker": "os_name=='x' and ((os_name=='a' or os_name=='b'))"}),
    ("str_text_roundtrip", {"marker": "((os_name=='a' or os_name=='b')) and os_name=='x'"}),
    ("eq_texts", {"a": "os_name=='a' and extra=='Foo_Bar'", "b": "os_name=='a' and extra=='foo-bar'"}),
    ("eq_texts", {"a": "(('FOO.bar'==extra))", "b": "'foo-bar' == extra"}),
    ("str_text_roundtrip", {"marker": "(extra=='Foo_Bar')"}),
    ("str_text_roundtrip", {"marker": "os_name == 'a\"b'"}),
    ("str_text_roundtrip", {"marker": "'\"' in platform_version or extra == '\"'"}),
    ("construct_exception_class", {"marker": "os_name == '\\x'"}),
    ("construct_exception_class", {"marker": "os_name == 'a\nb'"}),
    ("construct_exception_class", {"marker": "os_name == 'a\x00b'"}),
    ("construct_exception_class", {"marker": "os_name == 'a\ud800b'"}),
]
RULES = ["LEFT_PARENTHESIS", "RIGHT_PARENTHESIS", "QUOTED_STRING", "OP", "BOOLOP", "IN", "NOT", "VARIABLE", "WS", "END"]
LIT_SNIPPETS = ["\\n", "\\x41", "\\", "\\\n", "\\777", "\\u00e9", "\\q", "\\U0001F600", "\\x4", "\\N{}", "\\Nx", "\n", "\r",
                "\x00", "\ud800", "\\\r\n", "\\'", '\\"', "\\\\", "\\0", "\\18", "é", "\x0c", "\\U00110000", "\\u12"]


def _lit_token(rng):
    q = rng.choice("'\"")
    body = ""
    for _ in range(rng.randrange(0, 5)):
        body += rng.choice(LIT_SNIPPETS) if rng.random() < 0.5 else rng.choice(G.PEP508_CHARS + ("'" if q == '"' else '"'))
    return q + body.replace(q, "") + q


class C09(Prop):
    id = "C09"
    lean_modules = ["PkgProofs.Props.C09", "PkgProofs.Props.C09Layout"]
    generated = ["MarkerTok"]
    theorems = ["C09.str_roundtrip_char", "C09.marker_roundtrip_char", "C09.constructed_marker_roundtrip", "MkWf.parse_wf", "MkLex.lex", "MkLexP.parse_spell_print",
                "C09.str_is_spelled_tokens", "C09.format_parses_back", "C09.format_preserves_grouping",
                "C09.literal_preserved", "C09.outer_parentheses_dropped", "C09.literal_quote_safe",
                "C09.literal_eval_roundtrip", "C09.extra_normalised_everywhere", "C09.extra_spelling_normalised",
                "C09.normalize_idem", "C09.eq_iff_same_str", "C09.eq_equivalence", "C09.hash_agrees",
                "C09.same_tokens_same_eval", "C09.one_spelling_per_variable",
                "C09.Old.old_format_loses_grouping", "C09.Old.old_quote_truncates", "C09.Old.old_extra_not_normalised",
                "MkParse.parse_print", "MkFmt.fmtToksL_true", "MkFmt.fOfL_nfTop", "MkFmt.nfTop_idem",
                "C09.same_marker_of_same_parens", "C09.eq_hash_layout_independent", "C09.extra_spelling_layout_independent",
                "C09.map_norm_extra", "C09.mkMarker_lex", "C09.flat_norm", "C09.nf_nfP", "C09.str_nfP", "C07.marker_parse_render_lex", "MkLay.parse_renderE"]
    rule = ("C07 formulas with literals over the full PEP 508 string alphabet (both quote characters, '#', ';', brackets), "
            "extra comparisons in every position and on either side, redundant parentheses to depth 4 (incl. doubled "
            "parentheses around compound operands), two independent spellings per formula (white space, quotes, outer "
            "parentheses, PEP 345 names, extra-name spelling); token/character damage incl. escapes, CR/LF, NUL, lone "
            "surrogates inside literals; non-trivial = the marker was constructed")
    trusted = ["canonicalize_name is a parameter of the marker model (Mk.Ext.canonName); in the correspondence its answers "
               "for the literals at hand are computed on the real code and passed as data",
               "ast.literal_eval of a QUOTED_STRING token as modelled by Mk.pyStrLit (escape decoding; \\N{...} not modelled)",
               "hash() as an uninterpreted function of (class name, str)"]
    partial = ["equality/hash of differently written markers is proved at character level (eq_hash_layout_independent, "
               "extra_spelling_layout_independent) for any two layouts of one formula that differ in white space, quote style, "
               "variable spelling, extra-name spelling and redundant parentheses (outer, around single comparisons, doubled); "
               "literals with backslash/CR/LF/NUL/surrogates are outside these theorems",
               "the character-level round trip (str_roundtrip_char, marker_roundtrip_char) assumes canonical comparisons: "
               "variables among the twelve canonical names (what process_env_var produces: one_spelling_per_variable), the ten "
               "operators, literals free of backslash/CR/LF/NUL/surrogates and not containing both quote characters; "
               "constructed_marker_roundtrip discharges the variable/operator part for every marker Marker() can construct "
               "(parse_wf), leaving only the condition on literals (true of every PEP 508 string)",
               "Requirement(s).marker == Marker(s) is a law on the real code only (the requirement parser is C08's model)",
               "literals containing a backslash are outside the PEP 508 string alphabet: literal_eval's escape processing is "
               "modelled and corresponds, but such literals do not round-trip (str does not re-escape) and no theorem covers them"]
    budget = {"quick": (3000, 2500), "thorough": (60000, 50000)}

    # ---- correspondence
    def _text(self, rng, *, extra_bias=False):
        pool = G.make_pool(rng)
        tree = G.formula(rng, pool, depth=rng.choice([0, 1, 1, 2, 2, 3, 3, 4, 5, 6]), p_odd=0.05)
        return tree, G.render(tree, rng, extra_paren=rng.choice([0.1, 0.25, 0.5]), respell_extra=rng.random() < 0.5)

    def gen_cases(self, rng, n):
        for _law, inp in WITNESSES:
            if "marker" in inp:
                yield R.case_rt(inp["marker"])
            else:
                yield R.case_eq(inp["a"], inp["b"])
        k = 0
        while k < n:
            try:
                tree, s = self._text(rng)
            except G.OutOfDomain:
                continue
            k += 1
            r = rng.random()
            if r < 0.12:
                s = G.damage(rng, s)
                if rng.random() < 0.3:
                    s = G.damage(rng, s)
            if r < 0.55:
                yield R.case_rt(s)
            elif r < 0.75:
                # a second spelling of the same formula, or of a near neighbour
                rng2 = random.Random(rng.randrange(1 << 30))
                try:
                    t = G.render(tree, rng2, respell_extra=True)
                except G.OutOfDomain:
                    continue
                if rng.random() < 0.25:
                    t = G.damage(rng, t)
                yield R.case_eq(s, t)
            elif r < 0.85:
                yield ("mk.lit", [core.enc(_lit_token(rng))])
            elif r < 0.92:
                # a literal with escapes / control characters inside a marker
                yield R.case_rt(f"os_name == {_lit_token(rng)}" + (" and extra == 'A_b'" if rng.random() < 0.3 else ""))
            else:
                rule, pos = G.tokenizer_probe(rng, s)
                yield ("mk.match", [rule, core.enc(s), str(pos)])

    def complete(self, op, args):
        if op == "mk.rt":
            return R.case_rt(core.dec(args[0]))[1]
        if op == "mk.str":
            return R.case_str(core.dec(args[0]))[1]
        if op == "mk.eq":
            return R.case_eq(core.dec(args[0]), core.dec(args[1]))[1]
        return args

    def real(self, op, args):
        if op == "mk.rt":
            return R.real_rt(core.dec(args[0]))
        if op == "mk.str":
            return R.real_str(core.dec(args[0]))
        if op == "mk.eq":
            return R.real_eq(core.dec(args[0]), core.dec(args[1]))
        if op == "mk.lit":
            return R.real_lit(core.dec(args[0]))
        if op == "mk.match":
            return R.real_match(args[0], core.dec(args[1]), int(args[2]))
        raise KeyError(op)

    def nontrivial(self, op, args, out):
        return out.startswith("ok") or (op == "mk.eq" and out[:1] in "01") or (op == "mk.match" and out != "~")

    def branch(self, op, args, out):
        if op == "mk.match":
            return "match:" + args[0] + ":" + ("hit" if out != "~" else "miss")
        if op == "mk.rt" and out.startswith("ok"):
            s = core.dec(args[0])
            feats = ""
            if "((" in s.replace(" ", "").replace("\t", ""):
                feats += "P"
            if "extra" in s:
                feats += "X"
            if "'" in core.dec(out.split(" ")[1]):
                feats += "Q"
            return "rt:ok:" + feats + ":" + " ".join(out.split(" ")[2:3]) + out[-2:]
        if op == "mk.lit":
            return "lit:" + (out if not out.startswith("ok") else "ok" + (":escape" if "5c" in args[0].split(".") else ""))
        return op[3:] + ":" + out[:24]

    def judge(self, op, args, real, model, driver):
        if op in ("mk.rt", "mk.str"):
            return ("str_text_roundtrip", {"marker": core.dec(args[0])})
        if op == "mk.eq":
            return ("eq_texts", {"a": core.dec(args[0]), "b": core.dec(args[1])})
        if op == "mk.lit":
            return None
        return None

    # ---- laws on the real code
    def gen_laws(self, rng, n):
        yield from WITNESSES
        k = 0
        while k < n:
            pool = G.make_pool(rng)
            tree = G.formula(rng, pool, p_odd=0.0)
            sd = rng.randrange(1 << 30)
            opts = {"extra_paren": rng.choice([0.1, 0.25, 0.5])}
            yield ("str_roundtrip", {"tree": tree, "seed": sd, "opts": opts}); k += 1
            if k % 3 == 0:
                yield ("eq_under_respelling", {"tree": tree, "seed": sd, "seed2": rng.randrange(1 << 30)}); k += 1
            if k % 5 == 0:
                yield ("requirement_marker", {"tree": tree, "seed": sd}); k += 1
            if k % 4 == 0:
                try:
                    s = G.render(tree, random.Random(sd))
                except G.OutOfDomain:
                    continue
                s = G.damage(rng, s)
                if rng.random() < 0.4:
                    s = s.replace("'", rng.choice(LIT_SNIPPETS) + "'", 1)
                yield ("construct_exception_class", {"marker": s}); k += 1

    def check_law(self, law, inp):
        markers = R.mods()[0]
        if "tree" in inp:
            G.check_tree(inp["tree"])
        if law in ("str_roundtrip", "str_text_roundtrip"):
            try:
                s = R.marker_text(inp)
                intended = G.ref_parse(s)
                if "tree" in inp and G.normal_form(intended, extras=False) != G.normal_form(inp["tree"], extras=False):
                    raise RuntimeError("renderer and reference parser disagree")
            except (G.OutOfDomain, G.Reject) as e:
                return True, f"outside the law's domain: {e}"
            if not G.one_variable_atoms(intended):
                return True, "outside the law's domain: a comparison of two variables / two literals"
            return roundtrip(s, intended)
        if law == "eq_under_respelling":
            try:
                rng1, rng2 = random.Random(inp["seed"]), random.Random(inp["seed2"])
                toks = G.render_tokens(inp["tree"], rng1, respell_extra=True)
                a = G.join_tokens(toks, rng1)
                b = G.join_tokens(G.respell_tokens(toks, rng2), rng2)
            except G.OutOfDomain as e:
                return True, f"outside the law's domain: {e}"
            return eq_texts(a, b)
        if law == "eq_texts":
            return eq_texts(inp["a"], inp["b"])
        if law == "requirement_marker":
            from packaging.requirements import Requirement
            try:
                s = R.marker_text(inp)
                G.ref_parse(s)
            except (G.OutOfDomain, G.Reject) as e:
                return True, f"outside the law's domain: {e}"
            m = markers.Marker(s)
            for text in (f"pkg; {s}", f"pkg[x] >=1.0 ;{s}", f"pkg @ https://example.org/p.whl ; {s}"):
                r = Requirement(text)
                if not (r.marker == m and str(r.marker) == str(m) and hash(r.marker) == hash(m)):
                    return False, f"Requirement({text!r}).marker = {str(r.marker)!r} but Marker({s!r}) = {str(m)!r}"
            return True, ""
        if law == "construct_exception_class":
            s = inp["marker"]
            if not isinstance(s, str):
                raise TypeError("marker")
            try:
                markers.Marker(s)
            except markers.InvalidMarker:
                return True, ""
            except RecursionError:
                return True, "nesting deeper than the interpreter's recursion limit"
            except Exception as e:
                return False, f"Marker({s!r}) raised {type(e).__name__} (only InvalidMarker is documented)"
            return True, ""
        raise KeyError(law)


def sample_envs(tree, seed):
    """a few environments built from the literals of the formula"""
    rng = random.Random(seed)
    lits = [o[1] for a in G.atoms_of(G.strip_parens(tree)) for o in (a[1], a[3]) if o[0] == "lit"] or ["a"]
    envs = [None]
    for _ in range(3):
        envs.append({v: rng.choice(lits + ["3.8", "posix", ""]) for v in G.VARS if rng.random() < 0.8})
    return envs


def roundtrip(s, intended):
    """the statement of C09 for one text whose formula is ``intended`` (from the reference parser)"""
    markers = R.mods()[0]
    try:
        m = markers.Marker(s)
    except Exception as e:
        return False, f"well-formed marker {s!r} rejected: {type(e).__name__}"
    t = str(m)
    try:
        m2 = markers.Marker(t)
    except Exception as e:
        return False, f"str(Marker({s!r})) = {t!r} is not a valid marker ({type(e).__name__})"
    if str(m2) != t:
        return False, f"str is not idempotent: {s!r} -> {t!r} -> {str(m2)!r}"
    if not (m2 == m and hash(m2) == hash(m)):
        return False, f"Marker(str(m)) != m for {s!r}"
    try:
        printed = G.ref_parse(t)
    except G.OutOfDomain as e:
        return True, f"outside the law's domain: {e}"
    except G.Reject as e:
        return False, f"str(Marker({s!r})) = {t!r} is not a marker by the PEP 508 grammar ({e})"
    if G.normal_form(printed) != G.normal_form(intended):
        return False, (f"str(Marker({s!r})) = {t!r} denotes a different formula (grouping, literal or variable changed): "
                       f"{G.normal_form(printed)} vs {G.normal_form(intended)}")
    for a in G.atoms_of(G.strip_parens(printed)):
        for o, other in ((a[1], a[3]), (a[3], a[1])):
            if o[0] == "lit" and other == ["var", "extra"] and all(ord(c) < 128 for c in o[1]) \
                    and o[1] != G.ref_canon_name(o[1]):
                return False, f"str(Marker({s!r})) = {t!r} keeps the un-normalised extra name {o[1]!r}"
    import re
    for w in re.findall(r"[A-Za-z_.]+", re.sub(r"'[^']*'|\"[^\"]*\"", "", t)):
        if w not in G.VARS and w not in ("and", "or", "in", "not"):
            return False, f"str(Marker({s!r})) = {t!r} uses the non-canonical spelling {w!r}"
    for env in sample_envs(intended, len(s)):
        a, b = R.real_eval(s, env), R.real_eval(t, env)
        if a != b:
            return False, f"Marker({s!r}) and its str {t!r} evaluate differently in {env!r}: {a} vs {b}"
    return True, ""


def eq_texts(a, b):
    """two spellings of one formula (white space, quotes, redundant outer parentheses, PEP 345 names, extra-name
    spelling) are equal and hash alike"""
    markers = R.mods()[0]
    try:
        ta, tb = G.ref_parse(a, keep_parens=True), G.ref_parse(b, keep_parens=True)
    except (G.OutOfDomain, G.Reject) as e:
        return True, f"outside the law's domain: {e}"
    if G.grouping_form(ta) != G.grouping_form(tb):
        return True, "outside the law's domain: the two texts differ in more than spelling"
    if not G.one_variable_atoms(ta):
        return True, "outside the law's domain: a comparison of two variables / two literals"
    try:
        ma, mb = markers.Marker(a), markers.Marker(b)
    except Exception as e:
        return False, f"well-formed marker rejected: {type(e).__name__} ({a!r} / {b!r})"
    if not (ma == mb and mb == ma and not (ma != mb)):
        return False, f"Marker({a!r}) != Marker({b!r}) although they differ only in spelling ({str(ma)!r} vs {str(mb)!r})"
    if hash(ma) != hash(mb):
        return False, f"Marker({a!r}) == Marker({b!r}) but their hashes differ"
    return True, ""


from srccall import with_src  # noqa: E402

# translated source: the string-form functions of markers.py are proved equal to the model functions the theorems are about
# (Mk.fmtL / normalizeExtra / str / eq / hashKey); what `hash` is applied to stays visible (PyRt.hash_sym)
PROP = with_src(C09(), share=10, functions=["_format_marker", "_normalize_extra_values", "Marker.__str__", "Marker.__eq__", "Marker.__hash__",
                                             "Marker.__init__"],
                module=["PkgProofs.Props.Src.MarkerFmt", "PkgProofs.Props.Src.MarkerInit"],
                theorems=["Src.Marker.__init___translated", "Src.Marker.__init___eq_model", "Src.parse_marker_eq_model'",
                          "Src._format_marker_translated", "Src._format_marker_eq_model",
                          "Src._normalize_extra_values_translated", "Src._normalize_extra_values_eq_model",
                          "Src.Marker.__str___translated", "Src.Marker.__str___eq_model",
                          "Src.Marker.__eq___translated", "Src.Marker.__eq___eq_model", "Src.Marker.__eq___not_marker",
                          "Src.Marker.__hash___translated", "Src.Marker.__hash___eq_model"])

# x9: the methods of the tokenizer all three grammars run on (`check/read/expect/consume/raise_syntax_error`, `enclosing_tokens` cut at
# its `yield`) are translated from `_tokenizer.py` and proved equal to the primitives of PkgModel/PyTok.lean that the translated parser
# functions call — the digest guard on the class is gone, an edit of a method is a failed proof obligation here
from srccall import X9_TOK_FUNCS, X9_TOK_THEOREMS, X9_TOK_MODULE  # noqa: E402
PROP = with_src(PROP, share=10, functions=X9_TOK_FUNCS, module=[X9_TOK_MODULE], theorems=X9_TOK_THEOREMS)
