"""C07 — Marker evaluation follows PEP 508 semantics."""
from __future__ import annotations

import random

import core
from gen import marker_real as R
from gen import markers as G
from run import Prop

# inputs on which the unrepaired code contradicted the statement (findings_proposed/C07.json); they run first on every check
WITNESSES = [
    ("eval_text_vs_reference", {"marker": "os_name == '1.0'", "env": {"os_name": "posix"}}),
    ("eval_text_vs_reference", {"marker": "platform_release === 'posix'", "env": {"platform_release": "posix"}}),
    ("eval_text_vs_reference", {"marker": "'1.0' <= os_name or os_name ~= '1'", "env": {"os_name": "1.0"}}),
    ("evaluate_exception_class", {"marker": "'a' == 'b'", "env": {}}),
    ("evaluate_exception_class", {"marker": "os_name == os_name and 'x' in 'y'", "env": None}),
]
RULES = ["LEFT_PARENTHESIS", "RIGHT_PARENTHESIS", "QUOTED_STRING", "OP", "BOOLOP", "IN", "NOT", "VARIABLE", "WS", "END"]


MARKER_PARSE_THEOREMS = [
    "Src.process_env_var_translated", "Src.process_env_var_eq_model", "Src.process_python_str_translated",
    "Src.process_python_str_eq_model", "Src._parse_marker_var_translated", "Src._parse_marker_var_agrees",
    "Src._parse_marker_op_translated", "Src._parse_marker_op_agrees", "Src._parse_marker_item_translated",
    "Src._parse_marker_item_agrees", "Src._parse_marker_atom_translated", "Src._parse_marker_translated",
    "Src._parse_marker_agrees", "Src._parse_full_marker_translated", "Src.parse_marker_translated", "Src.parse_marker_eq_model",
    "Src._parse_marker_fuel_agrees", "Src.Fuel.parse_ne_fuel", "Src.parse_marker_eq_model'"]


class C07(Prop):
    id = "C07"
    lean_modules = ["PkgProofs.Props.C07", "PkgProofs.Props.C07Layout"]
    generated = ["MarkerTok"]
    theorems = ["C07.groups_is_or_of_ands", "C07.eval_op_dispatch", "C07.undefined_comparison_iff", "C07.either_side",
                "C07.evalAtom_refines", "C07.extra_normalised_both_sides", "C07.extra_spelling_irrelevant",
                "C07.env_effective", "C07.buildEnv_ok", "C07.evaluate_refines", "C07.pure_of_effective_env",
                "C07.parse_precedence", "C07.parse_precedence_char", "C07.atomSem_normAtom", "C07.evaluate_lst",
                "C07.marker_evaluate_refines", "C07.marker_of_text_refines", "C07.constructed_marker_refines", "MkWf.parse_wf", "MkLex.lex", "MkLexP.parse_spell_print",
                "MkParse.parse_print", "MkParse.formulaOf_lst", "MkParse.fOfL_norm",
                "C07.marker_parse_render_layout", "C07.marker_parse_render_lex", "C07.formulaOf_flat", "C07.wf_atoms_canonical",
                "C07.mkMarker_layout", "C07.eval_layout_independent", "C07.marker_of_layout_refines",
                "MkLay.parse_renderE", "MkLay.parseItem_lay", "MkLay.matchFin_tok", "ReqMk.fuel_enough"]
    rule = ("random and/or formulas (depth <= 6, flat mixed chains 'a or b and c or d', redundant parentheses to depth 4, "
            "both operand orders, both quote styles, PEP 345 dotted spellings, all ten operators, literals over the PEP 508 "
            "string alphabet) x environments (version-like and non-version-like values per variable, extra needing "
            "normalisation / None / absent, python_full_version ending in '+', no mapping at all), plus token- and "
            "character-level damage and direct tokenizer probes (rule x position); non-trivial = evaluation returned a value")
    trusted = ["Specifier(op+rhs).contains(lhs, prereleases=True) and canonicalize_name are parameters of the marker model "
               "(Mk.Ext); in the correspondence their answers for the atoms at hand are computed on the real code and passed as data",
               "ast.literal_eval of a QUOTED_STRING token as modelled by Mk.pyStrLit (escape decoding; \\N{...} not modelled)",
               "CPython re: leftmost alternative / backtracking order and \\b as modelled by Mk.matchFin (word table measured)"]
    partial = ["character-level parsing is proved for every layout (marker_parse_render_layout: any white-space runs of space/tab "
               "wherever the tokenizer admits them, an optional final newline, either quote style per literal, every VARIABLE spelling "
               "process_env_var accepts, any amount of parentheses) of formulas whose literals contain no backslash/CR/LF/NUL/surrogate "
               "and not the chosen delimiter; not covered by a theorem, only by the correspondence: literals with backslash escapes, "
               "and what the parser does with texts that are not a layout of any formula (rejection)",
               "comparisons of two variables or of two literals are outside the statement; the model mirrors what the code does "
               "with them (correspondence only), the refinement theorems assume one variable per comparison",
               "recursion depth: the model's fuel is linear in the input length; CPython's RecursionError on ~330 nested "
               "parentheses is not modelled (not generated)"]
    budget = {"quick": (3000, 2500), "thorough": (60000, 50000)}

    # ---- correspondence
    def gen_cases(self, rng, n):
        for _law, inp in WITNESSES:
            yield R.case_eval(inp["marker"], inp["env"])
        for _ in range(n):
            pool = G.make_pool(rng)
            tree = G.formula(rng, pool)
            try:
                s = G.render(tree, rng)
            except G.OutOfDomain:
                continue
            r = rng.random()
            if r < 0.10:
                s = G.damage(rng, s)
                if rng.random() < 0.3:
                    s = G.damage(rng, s)
            if r > 0.88:
                if rng.random() < 0.5:
                    s = G.damage(rng, s)
                rule, pos = G.tokenizer_probe(rng, s)
                yield ("mk.match", [rule, core.enc(s), str(pos)])
                continue
            env = G.environment(rng, pool, tree)
            yield R.case_eval(s, env)

    def real(self, op, args):
        if op == "mk.eval":
            return R.real_eval(core.dec(args[0]), R.dec_env(args[2]))
        if op == "mk.match":
            return R.real_match(args[0], core.dec(args[1]), int(args[2]))
        raise KeyError(op)

    def complete(self, op, args):
        if op == "mk.eval":
            return R.case_eval(core.dec(args[0]), R.dec_env(args[2]))[1]
        return args

    def nontrivial(self, op, args, out):
        return out.startswith("ok") or (op == "mk.match" and out != "~")

    def branch(self, op, args, out):
        if op == "mk.match":
            return "match:" + args[0] + ":" + ("hit" if out != "~" else "miss")
        kinds = sorted({e.rsplit(",", 1)[1] for e in args[4].split(";")} if args[4] not in ("", "_") else set())
        tag = "".join({"1": "s", "0": "s", "v": "v", "n": "n"}[k] for k in kinds)
        tag = "".join(sorted(set(tag)))
        env = "noenv" if args[2] == "~" else ""
        return f"eval:{out[:26]}:{tag}{env}"

    def judge(self, op, args, real, model, driver):
        if op != "mk.eval":
            return None
        spec = driver.ask("\t".join(["s.mk.eval", *args]))
        if (spec.startswith("ok ") or spec.startswith("err ")) and real != spec:
            return ("eval_text_vs_reference", {"marker": core.dec(args[0]), "env": R.dec_env(args[2])})
        return None

    # ---- laws on the real code
    def gen_laws(self, rng, n):
        yield from WITNESSES
        k = 0
        while k < n:
            pool = G.make_pool(rng)
            tree = G.formula(rng, pool, p_odd=0.0)
            env = G.environment(rng, pool, tree)
            sd = rng.randrange(1 << 30)
            yield ("eval_vs_reference", {"tree": tree, "env": env, "seed": sd}); k += 1
            if k % 4 == 0:
                tree2 = G.formula(rng, pool, depth=rng.randrange(0, 3), p_odd=0.25)
                yield ("evaluate_exception_class", {"tree": tree2, "env": env, "seed": sd}); k += 1
            if k % 7 == 0:
                yield ("evaluate_pure", {"tree": tree, "env": env, "env2": G.environment(rng, pool, tree), "seed": sd}); k += 1
            if k % 25 == 0:
                w = lambda: rng.choice(["posix", "nt", "Linux", "x86_64", "6.1.0-13", "CPython", "PyPy", "cpython", "linux", "win32",
                                        "3.12.1", "a b", "1.0", ""])
                tup = rng.choice([["3", "12", "1"], ["3", "9", "0"], ["2", "7", "18"], ["3", "13", "0a1+"], ["3", "10", "0rc2"]])
                yield ("detected_environment", {"probes": {
                    "impl_version": [rng.choice([3, 7, 0]), rng.choice([0, 9, 13]), rng.choice([0, 1, 17]),
                                     rng.choice(["final", "final", "alpha", "beta", "candidate"]), rng.choice([0, 1, 2, 15])],
                    "impl_name": w(), "os_name": w(), "sys_platform": w(), "machine": w(), "release": w(), "system": w(),
                    "version": w(), "python_version": ".".join(tup), "python_implementation": w(), "python_version_tuple": tup},
                    "var": rng.choice(["implementation_name", "implementation_version", "os_name", "platform_machine",
                                       "platform_release", "platform_system", "platform_version", "python_full_version",
                                       "platform_python_implementation", "python_version", "sys_platform"])}); k += 1

    def _detected_law(self, inp):
        """PEP 508's table of environment markers: each variable is the named probe of the interpreter; python_version is
        '.'.join(platform.python_version_tuple()[:2]); implementation_version is format_full_version(sys.implementation.version).
        The probes are patched in (srccall._x10_apply), default_environment() is compared with the table, and a marker
        `<var> == <value>` is evaluated with no override to see that evaluation starts from exactly those values."""
        import srccall
        markers = R.mods()[0]
        pr = inp["probes"]
        v = srccall.version_info()
        v.major, v.minor, v.micro, v.releaselevel, v.serial = pr["impl_version"]
        env = srccall.Env([("sys.implementation.version", v), ("sys.implementation.name", pr["impl_name"]), ("os.name", pr["os_name"]),
                           ("sys.platform", pr["sys_platform"])] +
                          [("platform." + k, [((), (tuple(pr[k]) if k == "python_version_tuple" else pr[k]))])
                           for k in ("machine", "release", "system", "version", "python_version", "python_implementation",
                                     "python_version_tuple")])
        iver = "{}.{}.{}".format(*pr["impl_version"][:3])
        if pr["impl_version"][3] != "final":
            if not pr["impl_version"][3]:
                return True, "outside the law's domain: empty release level"
            iver += pr["impl_version"][3][0] + str(pr["impl_version"][4])
        want = {"implementation_name": pr["impl_name"], "implementation_version": iver, "os_name": pr["os_name"],
                "platform_machine": pr["machine"], "platform_release": pr["release"], "platform_system": pr["system"],
                "platform_version": pr["version"], "python_full_version": pr["python_version"],
                "platform_python_implementation": pr["python_implementation"],
                "python_version": ".".join(pr["python_version_tuple"][:2]), "sys_platform": pr["sys_platform"]}
        undo = srccall._x10_apply(env)
        try:
            got = dict(markers.default_environment())
            if got != want:
                diff = {k: (got.get(k), want.get(k)) for k in set(got) | set(want) if got.get(k) != want.get(k)}
                return False, f"default_environment() differs from PEP 508's table at (got, expected): {diff}"
            var, val = inp["var"], want[inp["var"]]
            if var == "python_full_version" and val.endswith("+"):
                return True, "table compared; evaluation completes a python_full_version ending in '+' (statement), not compared"
            if "'" in val or "\\" in val or "\n" in val or "\r" in val:
                return True, "value not a PEP 508 single-quoted literal; table compared only"
            m = markers.Marker(f"{var} == '{val}' and '{val}' == {var}")
            try:
                r = m.evaluate()
            except markers.UndefinedComparison:
                return True, "table compared; comparison undefined for this value"
            if r is not True:
                return False, f"Marker({str(m)!r}).evaluate() -> {r!r} although the detected {var} is {val!r}"
            return True, ""
        finally:
            undo()

    def check_law(self, law, inp):
        if law == "detected_environment":
            return self._detected_law(inp)
        markers = R.mods()[0]
        if "tree" in inp:
            G.check_tree(inp["tree"])
        try:
            s = R.marker_text(inp)
        except G.OutOfDomain as e:
            return True, f"outside the law's domain: {e}"
        env = R.env_of(inp)
        if law in ("eval_vs_reference", "eval_text_vs_reference"):
            try:
                tree = G.ref_parse(s)
                if "tree" in inp and G.normal_form(tree, extras=False) != G.normal_form(inp["tree"], extras=False):
                    raise RuntimeError("renderer and reference parser disagree")      # harness self-check
                eff = G.effective_env(R.default_env(), env)
                want = set()
                for lazy in (False, True):
                    try:
                        want.add("ok " + core.encb(G.ref_eval(tree, eff, lazy)))
                    except G.RefUndefinedComparison:
                        want.add("err UndefinedComparison")
            except (G.OutOfDomain, G.Reject) as e:
                return True, f"outside the law's domain: {e}"
            got = R.real_eval(s, env)
            if got not in want:
                return False, f"Marker({s!r}).evaluate({env!r}) -> {got}; the formula's value per PEP 508 is {sorted(want)}"
            return True, ""
        if law == "evaluate_exception_class":
            try:
                m = markers.Marker(s)
            except markers.InvalidMarker:
                return True, "not a marker"
            got = R.real_eval(s, env)
            if got.startswith("raw "):
                return False, f"Marker({s!r}).evaluate({env!r}) -> {got} (only UndefinedComparison / UndefinedEnvironmentName are documented)"
            return True, ""
        if law == "evaluate_pure":
            try:
                m = markers.Marker(s)
            except markers.InvalidMarker:
                return True, "not a marker"
            env2 = inp.get("env2")
            snap = None if env is None else dict(env)
            arg = None if env is None else dict(env)
            a = _outcome(m, arg)
            if arg != snap:
                return False, f"evaluate() modified the mapping it was given: {snap!r} -> {arg!r}"
            _outcome(m, None if env2 is None else dict(env2))
            _outcome(markers.Marker(s + " "), arg)
            b = _outcome(m, arg)
            c = _outcome(markers.Marker(s), None if env is None else dict(env))
            if not (a == b == c):
                return False, f"Marker({s!r}).evaluate({env!r}) is not a function of marker and environment: {a}, then {b}, fresh object {c}"
            if env is not None:
                # "every environment mapping": the same entries offered through other Mapping types (read-only view, chained
                # maps, a minimal user-defined Mapping that refuses any mutation, a dict subclass) give the same answer
                import collections
                import types

                class RO(collections.abc.Mapping):
                    def __init__(self, d):
                        self._d = d

                    def __getitem__(self, k):
                        return self._d[k]

                    def __iter__(self):
                        return iter(self._d)

                    def __len__(self):
                        return len(self._d)

                class D(dict):
                    pass
                keys = list(env)
                half = {k: env[k] for k in keys[: len(keys) // 2]}
                rest = {k: env[k] for k in keys[len(keys) // 2:]}
                for name, alt in (("MappingProxyType", types.MappingProxyType(dict(env))), ("ChainMap", collections.ChainMap(half, rest)),
                                  ("user Mapping", RO(dict(env))), ("dict subclass", D(env)),
                                  ("OrderedDict reversed", collections.OrderedDict(reversed(list(env.items()))))):
                    d = _outcome(m, alt)
                    if d != a:
                        return False, f"Marker({s!r}).evaluate: {name} with the entries {env!r} gives {d}, a dict gives {a}"
                    if dict(alt) != snap:
                        return False, f"evaluate() modified the {name} it was given"
            return True, ""
        raise KeyError(law)


def _outcome(m, env):
    try:
        return "ok " + str(m.evaluate(env))
    except Exception as e:
        return "exc " + type(e).__name__


from srccall import with_src  # noqa: E402

# translated source: the evaluation functions of markers.py are proved equal to the model functions the theorems are about
# (Mk.evalOp / normalize / lookupEnv / evalMarkers / buildEnv+evaluate); Specifier(...) / canonicalize_name /
# default_environment enter through an oracle, as in the model (Mk.Ext).  The marker grammar's recursive-descent
# functions (_parser.py) are proved to agree with Mk.parse… (PkgProofs/Props/Src/MarkerParse.lean).
PROP = with_src(C07(), share=10, functions=[
                    "_eval_op", "_normalize", "_get_env", "_evaluate_markers", "_repair_python_full_version",
                    "format_full_version", "Marker.evaluate",
                    "process_env_var", "process_python_str", "_parse_marker_var", "_parse_marker_op", "_parse_marker_item",
                    "_parse_marker_atom", "_parse_marker", "_parse_full_marker", "parse_marker"],
                module=["PkgProofs.Props.Src.MarkerEval", "PkgProofs.Props.Src.MarkerParse"],
                theorems=["Src._eval_op_translated", "Src._eval_op_eq_model", "Src._normalize_translated", "Src._normalize_eq_model",
                          "Src._get_env_translated", "Src._get_env_eq_model",
                          "Src._evaluate_markers_translated", "Src._evaluate_markers_eq_model",
                          "Src._repair_python_full_version_translated", "Src._repair_python_full_version_eq_model",
                          "Src.format_full_version_translated", "Src.format_full_version_eq_model",
                          "Src.Marker.evaluate_translated", "Src.Marker.evaluate_eq_model"] + MARKER_PARSE_THEOREMS)

# x9: the methods of the tokenizer all three grammars run on (`check/read/expect/consume/raise_syntax_error`, `enclosing_tokens` cut at
# its `yield`) are translated from `_tokenizer.py` and proved equal to the primitives of PkgModel/PyTok.lean that the translated parser
# functions call — the digest guard on the class is gone, an edit of a method is a failed proof obligation here
from srccall import X9_TOK_FUNCS, X9_TOK_THEOREMS, X9_TOK_MODULE  # noqa: E402
PROP = with_src(PROP, share=10, functions=X9_TOK_FUNCS, module=[X9_TOK_MODULE], theorems=X9_TOK_THEOREMS)
# x10: default_environment (the detected values of the statement's "effective environment"): which probe goes under which
# PEP 508 name, python_version = first two components, implementation_version through format_full_version
PROP = with_src(PROP, share=10, functions=["default_environment"], module=["PkgProofs.Props.Src.DefaultEnv"],
                theorems=["Src.default_environment_translated", "Src.default_environment_eq_model",
                          "Src.defaultEnvironment_keys", "Src.detectedNames_nodup", "Src.detectedNames_canonical",
                          "Src.python_version_two", "Src.Marker.evaluate_eq_model_detected", "Src.exTable_answers"])

# history-insensitivity on shared objects (harness/histlaw.py): programs over Specifier / SpecifierSet / Requirement / Marker
# objects; extra read-only calls and work on unrelated objects built from the same texts must not change any answer
import histlaw  # noqa: E402
PROP = histlaw.attach(PROP, every=25)
