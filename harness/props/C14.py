"""C14 — wheel and sdist filenames decode to what they encode; parse_tag; Tag case-insensitivity."""
from __future__ import annotations

import itertools
import random
import re

import core
from gen import versions as G
from props.C13 import ODD, ref_fold
from run import Prop

NAMES = ["foo", "Foo", "foo_bar", "foo.bar", "foo-bar", "Foo..Bar__baz", "a", "A1", "x.y-z_w", "py3", "0", "9lives", "a-b-c-d",
         "FOO--BAR", "z_Z", "name2", "n.0", "Django", "zope.interface", "ruamel.yaml.clib"]
PY = ["py3", "py2", "cp39", "cp312", "pp310", "PY3", "Cp311", "py38", "ip27", "cp3_13"]
ABI = ["none", "abi3", "cp39", "cp312", "cp312t", "NONE", "cp39m", "pypy310_pp73", "Abi3"]
PLAT = ["any", "linux_armv7l", "linux_sh", "manylinux2014_armv7l", "plat_w", "linux_x86_64", "manylinux_2_17_x86_64", "manylinux2014_x86_64", "win32", "win_amd64", "macosx_10_9_x86_64",
        "macosx_11_0_arm64", "MacOSX_10_9_universal2", "ANY", "musllinux_1_1_aarch64"]
SUFFIX = ["", "", "", "a", "b1", "_", "x", "_1", ".", "alpha", "ABC", "é", " ", "+x", "x9", ".0"]
NAME_DAMAGE = {"dunder": "__", "space": " ", "plus": "+", "bang": "!", "slash": "/", "at": "@", "newline_inside": "\n", "quote": "'"}
BAD_VERSIONS = ["abc", "1.0.x", "", "1..0", "v", "1.0+", "x1", "1.0a.b", "١", "1.0+a..b", "1!", "!1", "1,0", "١.0", "1.0rc1a2", "1 0"]
BAD_BUILD_STARTS = ["a", "_", ".", "x1", "", "²", "b2", " 1", "+1", "A9"]


def encv(v) -> str:
    """a Version's fields in the driver's `encVer` form"""
    t = v._version
    pre = "~" if t.pre is None else f"{t.pre[0]}{t.pre[1]}"
    post = "~" if t.post is None else str(t.post[1])
    dev = "~" if t.dev is None else str(t.dev[1])
    loc = "~" if t.local is None else ",".join(("n" + str(x)) if isinstance(x, int) else ("s" + core.enc(x)) for x in t.local)
    return f"{t.epoch}|{','.join(map(str, t.release))}|{pre}|{post}|{dev}|{loc}"


def enc_tags(tags) -> str:
    xs = sorted({f"{core.enc(t.interpreter)}:{core.enc(t.abi)}:{core.enc(t.platform)}" for t in tags})
    return ",".join(xs) if xs else "!"


def enc_list(xs) -> str:
    return ",".join(core.enc(x) for x in xs) if xs else "!"


def escape_name(name: str) -> str:
    """binary-distribution format: PEP 503 normalisation, then '-' -> '_'  (from the spec text, not from the code)"""
    return re.sub(r"[-_.]+", "-", name).lower().replace("-", "_")


def assemble_wheel(w, version_text=None, name_text=None) -> str:
    parts = [escape_name(w["name"]) if name_text is None else name_text,
             G.normal(w["ver"]) if version_text is None else version_text]
    if w["build"] is not None:
        parts.append(f"{w['build'][0]}{w['build'][1]}")
    parts += [".".join(w["py"]), ".".join(w["abi"]), ".".join(w["plat"])]
    return "-".join(parts) + ".whl"


def wheel_struct(rng):
    def some(pool):
        k = rng.choice([1, 1, 1, 2, 2, 3])
        return [rng.choice(pool) for _ in range(k)]
    build = None
    if rng.random() < 0.45:
        build = [rng.choice([0, 1, 2, 7, 10, 123, 20240101, 10**12]), rng.choice(SUFFIX)]
        if build[1][:1].isdigit():
            build[1] = "_" + build[1]
    return {"name": rng.choice(NAMES) if rng.random() < 0.7 else _rand_name(rng), "ver": G.struct(rng),
            "build": build, "py": some(PY), "abi": some(ABI), "plat": some(PLAT)}


def _rand_name(rng):
    words = ["a", "B", "c1", "2d", "Ee", "f", "0", "ZZ", "k9"]
    s = rng.choice(words)
    for _ in range(rng.choice([0, 1, 1, 2, 3])):
        s += "".join(rng.choice("-_.") for _ in range(rng.choice([1, 1, 2, 3]))) + rng.choice(words)
    return s


def spelled_wheel(rng, w):
    """a well-formed file name in some alternate spelling: name not fully escaped (dots, upper case), version re-spelled"""
    name = w["name"].replace("-", "_") if rng.random() < 0.7 else escape_name(w["name"])
    ver = G.spell(rng, w["ver"]) if rng.random() < 0.5 else G.normal(w["ver"])
    return assemble_wheel(w, version_text=ver, name_text=name)


def damage_wheel(rng, w, kind, sub=None):
    """-> (filename, sub-kind).  Every result is damaged in exactly the way `kind` says."""
    good = assemble_wheel(w)
    stem = good[:-4]
    if kind == "extension":
        sub = sub or rng.choice([".zip", ".WHL", ".whl.", "", ".wh", ".whl\n", ".whl ", ".tar.gz", "whl", ".egg"])
        return stem + sub, sub
    if kind == "parts":
        sub = sub or rng.choice(["drop_build_and_more", "drop_tag", "extra", "extra2", "only_name", "no_dash"])
        parts = stem.split("-")
        if sub == "drop_tag":
            parts = parts[:-1] if w["build"] is None else parts[:-2]
        elif sub == "drop_build_and_more":
            parts = parts[:3]
        elif sub == "extra":
            parts = parts + ["x"] * (2 if w["build"] is None else 1)
        elif sub == "extra2":
            parts = parts[:1] + ["y", "z"] + parts[1:]
        elif sub == "only_name":
            parts = parts[:1]
        else:
            parts = ["".join(parts)]
        return "-".join(parts) + ".whl", sub
    if kind == "name":
        sub = sub or rng.choice(sorted(NAME_DAMAGE))
        name = escape_name(w["name"])
        i = rng.randrange(len(name) + 1)
        if sub == "dunder":
            i = rng.randrange(len(name) + 1)
            name = name[:i] + "__" + name[i:]
        elif sub == "newline_inside":
            name = name[:i] + "\n" + name[i:] + ("" if i < len(name) else "x")
        else:
            name = name[:i] + NAME_DAMAGE[sub] + name[i:]
        return assemble_wheel(w, name_text=name), sub
    if kind == "name_trailing_newline":
        return assemble_wheel(w, name_text=escape_name(w["name"]) + "\n"), "newline_end"
    if kind == "build":
        w = dict(w)
        start = sub if sub is not None else rng.choice(BAD_BUILD_STARTS)
        w["build"] = ["", ""]
        parts = assemble_wheel(w)[:-4].split("-")
        parts[2] = start + rng.choice(["", "1", "x"]) if start != "" else ""
        return "-".join(parts) + ".whl", start
    if kind == "build_unicode_digit":
        w = dict(w)
        w["build"] = ["", ""]
        parts = assemble_wheel(w)[:-4].split("-")
        parts[2] = (sub or rng.choice(["١", "２", "߁", "१"])) + rng.choice(["", "0", "b"])
        return "-".join(parts) + ".whl", parts[2]
    if kind == "version":
        sub = sub if sub is not None else rng.choice(BAD_VERSIONS)
        return assemble_wheel(w, version_text=sub), sub
    raise KeyError(kind)


def sdist_struct(rng):
    name = rng.choice(NAMES) if rng.random() < 0.7 else _rand_name(rng)
    return {"name": name, "spelling": rng.choice(["raw", "escaped", "underscore", "upper"]),
            "ver": G.struct(rng), "ext": rng.choice([".tar.gz", ".zip"])}


def assemble_sdist(s, version_text=None):
    n = s["name"]
    n = {"raw": n, "escaped": escape_name(n), "underscore": n.replace("-", "_"), "upper": n.upper()}[s["spelling"]]
    return n + "-" + (G.normal(s["ver"]) if version_text is None else version_text) + s["ext"]


def _utils():
    from packaging import utils
    return utils


def _tags():
    from packaging import tags
    return tags


def rand_tag_string(rng):
    k = rng.random()
    if k < 0.6:
        xs = [".".join(rng.choice(p) for _ in range(rng.choice([1, 1, 2, 3]))) for p in (PY, ABI, PLAT)]
        return "-".join(xs)
    if k < 0.8:   # wrong dash count / empty components
        return "-".join(rng.choice(["py3", "", "none.ABI3", "any", "a.b", ".", "x..y"]) for _ in range(rng.choice([1, 2, 3, 3, 4, 5])))
    s = "-".join(rng.choice(["py3", "none", "any", "Py2.PY3"]) for _ in range(3))
    i = rng.randrange(len(s) + 1)
    return s[:i] + rng.choice([c for c in ODD if c != "\ud800"] + ["-", "."]) + s[i:]


SIGMA_PARTS = ["X\u03a3", "\u03a3", "\u03a3Y", "A\u03a3B", "Y", "OS", "\u0130", "x\u0130", "\u0391\u03a3"]

class C14(Prop):
    id = "C14"
    lean_modules = ["PkgProofs.Props.C14"]
    generated = ["NameTables"]
    theorems = ["Fn.tables_as_modelled", "Fn.parseWheel_parts", "Fn.parseWheel_spec", "Fn.str_no_dash", "Fn.parseBuild_dec",
                "Fn.canon_escapeName", "C14.escaped_name_ok", "C14.wheel_roundtrip", "C14.mem_product",
                "C14.sdist_roundtrip", "C14.sdist_roundtrip_escaped", "C14.tag_eq_iff", "C14.tag_case_insensitive",
                "C14.tag_fields_lower", "C14.parse_tag_str", "C14.wheel_never_raw", "C14.reject_wrong_extension",
                "C14.reject_wrong_parts", "C14.reject_bad_name", "C14.reject_bad_version", "C14.reject_bad_build",
                "C14.sdist_reject_extension", "C14.sdist_reject_no_dash", "C14.sdist_reject_version", "V.scan_str"]
    rule = ("wheel file names assembled per the binary-distribution format from (name with digits/underscores/dots/dashes/upper case, "
            "PEP 440 structure incl. epochs, pre/post/dev, locals, optional build (number, suffix), multi-valued python/abi/platform sets), "
            "the same in alternate spellings (unescaped dots / upper case, re-spelled versions), and one damaged variant per damage kind "
            "(extension, number of parts, name, build, version) plus character-level damage with one representative per code-point class; "
            "sdist names likewise; tag strings with wrong dash counts, empty components, mixed case; "
            "non-trivial = parsed without error")
    trusted = ["hash(): Tag.__eq__ is modelled for an arbitrary hash function of the (interpreter, abi, platform) tuple",
               "str.lower per code point and the \\w, \\d, '.' tables: regenerated from the running interpreter / the patterns in the source",
               "Version(...) on the version part: the scanner model of PkgModel/Version.lean (tied by C02/C12 and by this correspondence)"]
    partial = ["int() of a build number longer than the interpreter's int-from-string limit (4300 digits) raises a bare ValueError; "
               "the model has no such limit and the generators stay below it (interpreter limit, see C11/C12)",
               "the context-dependent final form of U+03A3 in str.lower (names, tags) is outside the model; such inputs are not generated",
               "an empty project-name part ('-1.0-py3-none-any.whl') is accepted by the code and by the model; the property "
               "statement does not list it among the rejected damage kinds, so no law is attached to it"]
    budget = {"quick": (9000, 5000), "thorough": (160000, 90000)}

    # ---- correspondence
    def gen_cases(self, rng, n):
        while True:
            r = rng.random()
            w = wheel_struct(rng)
            if r < 0.22:
                f = assemble_wheel(w)
            elif r < 0.36:
                f = spelled_wheel(rng, w)
            elif r < 0.56:
                kind = rng.choice(["extension", "parts", "name", "name_trailing_newline", "build", "build_unicode_digit", "version"])
                f = damage_wheel(rng, w, kind)[0]
            elif r < 0.64:
                f = G.malformed(rng, assemble_wheel(w))
            elif r < 0.80:
                s = sdist_struct(rng)
                q = rng.random()
                if q < 0.55:
                    f = assemble_sdist(s)
                elif q < 0.7:
                    f = assemble_sdist(s, version_text=rng.choice(BAD_VERSIONS + [G.spell(rng, s["ver"])]))
                elif q < 0.85:
                    f = G.malformed(rng, assemble_sdist(s))
                else:
                    f = assemble_sdist(s)[: -len(s["ext"])] + rng.choice([".tgz", ".tar", ".ZIP", ".tar.gz\n", "", ".whl", ".tar.bz2"])
                if "Σ" not in f:
                    yield ("sdist.parse", [core.enc(f)])
                continue
            elif r < 0.90:
                t = rand_tag_string(rng)
                if "Σ" not in t:
                    yield ("tag.parse", [core.enc(t)])
                continue
            elif r < 0.96:
                a = [rng.choice(PY + ["É", "ǅ", "İ"]), rng.choice(ABI), rng.choice(PLAT)]
                b = [x.swapcase() if rng.random() < 0.6 else rng.choice([x, x + "x", x.upper()]) for x in a]
                yield ("tag.pair", [core.enc(x) for x in a + b])
                continue
            else:
                b = "~" if w["build"] is None else f"{w['build'][0]}:{core.enc(w['build'][1])}"
                yield ("s.whl.assemble", [core.enc(w["name"]), core.enc(G.normal(w["ver"])), b,
                                          enc_list(w["py"]), enc_list(w["abi"]), enc_list(w["plat"])])
                continue
            if "Σ" in f:
                continue
            yield ("whl.parse", [core.enc(f)])

    def real(self, op, args):
        U, T = _utils(), _tags()
        if op == "whl.parse":
            try:
                name, ver, build, tags = U.parse_wheel_filename(core.dec(args[0]))
            except U.InvalidWheelFilename:
                return "err InvalidWheelFilename"
            except Exception as e:
                return "raw " + type(e).__name__
            b = "~" if build == () else f"{build[0]}:{core.enc(build[1])}"
            return f"ok {core.enc(name)} {encv(ver)} {b} {enc_tags(tags)}"
        if op == "sdist.parse":
            try:
                name, ver = U.parse_sdist_filename(core.dec(args[0]))
            except U.InvalidSdistFilename:
                return "err InvalidSdistFilename"
            except Exception as e:
                return "raw " + type(e).__name__
            return f"ok {core.enc(name)} {encv(ver)}"
        if op == "tag.parse":
            try:
                return "ok " + enc_tags(T.parse_tag(core.dec(args[0])))
            except Exception as e:
                return "raw " + type(e).__name__
        if op == "tag.pair":
            xs = [core.dec(a) for a in args]
            t, u = T.Tag(*xs[:3]), T.Tag(*xs[3:])
            return f"{core.enc(str(t))} {core.encb(t == u)} {core.encb(hash(t) == hash(u))}"
        if op == "s.whl.assemble":
            w = {"name": core.dec(args[0]), "build": None if args[2] == "~" else [int(args[2].split(":")[0]), core.dec(args[2].split(":")[1])],
                 "py": _dec_list(args[3]), "abi": _dec_list(args[4]), "plat": _dec_list(args[5])}
            return core.enc(assemble_wheel(w, version_text=str(_V()(core.dec(args[1])))))
        raise KeyError(op)

    def nontrivial(self, op, args, out):
        return out.startswith("ok") or op in ("tag.pair", "s.whl.assemble")

    def branch(self, op, args, out):
        if op == "whl.parse" and out.startswith("ok"):
            p = out.split(" ")
            return f"whl ok build={'y' if p[3] != '~' else 'n'} tags={'many' if ',' in p[4] else '1'}"
        if op == "whl.parse":
            why = "?"
            try:
                _utils().parse_wheel_filename(core.dec(args[0]))
            except Exception as e:
                msg = str(e)
                why = next((k for k, t in (("ext", "extension must be"), ("parts", "wrong number of parts"), ("name", "Invalid project name"),
                                           ("version", "invalid version"), ("build", "Invalid build number")) if t in msg), "?")
            return f"whl {out} ({why})"
        if op == "tag.pair":
            return "tag.pair eq=" + out.split(" ")[1]
        if op == "s.whl.assemble":
            return op
        return op + " " + out.split(" ", 2)[0] + ("" if out.startswith("ok") else " " + out.split(" ")[-1])

    def judge(self, op, args, real, model, driver):
        return None

    # ---- laws on the real code
    def gen_laws(self, rng, n):
        # suspected deviations first (DESIGN §8 row 20 and the '$' of the name pattern)
        w0 = {"name": "foo", "ver": {"epoch": 0, "release": [1, 0], "pre": None, "post": None, "dev": None, "local": None},
              "build": None, "py": ["py3"], "abi": ["none"], "plat": ["any"]}
        yield ("wheel_rejects", {"w": w0, "damage": "build_unicode_digit", "sub": "١", "seed": 1})
        yield ("wheel_rejects", {"w": w0, "damage": "name_trailing_newline", "sub": None, "seed": 1})
        k = 0
        while True:
            k += 1
            sd = rng.randrange(1 << 30)
            m = k % 10
            if m in (0, 1, 2):
                yield ("wheel_roundtrip", {"w": wheel_struct(rng), "seed": sd})
            elif m in (3, 4, 5):
                kind = ["extension", "parts", "name", "build", "version", "build_unicode_digit", "name_trailing_newline"][(k // 10) % 7]
                yield ("wheel_rejects", {"w": wheel_struct(rng), "damage": kind, "sub": None, "seed": sd})
            elif m == 6:
                yield ("sdist_roundtrip", {"s": sdist_struct(rng), "seed": sd})
            elif m == 7:
                yield ("sdist_rejects", {"s": sdist_struct(rng), "damage": rng.choice(["extension", "nodash", "version"]), "seed": sd})
            elif m == 8:
                yield ("tag_case_insensitive", {"t": [rng.choice(PY), rng.choice(ABI), rng.choice(PLAT)], "seed": sd})
            else:
                yield ("parse_tag_str", {"t": [rng.choice(PY + ["", "É"]), rng.choice(ABI + ["x_y"]), rng.choice(PLAT)]})
                if k % 3 == 0:
                    # the compressed set is the product of the dotted parts *as Tags*: each part is lower-cased on its own
                    # (U+03A3 lower-cases by context, U+0130 to two code points: folding the whole string first differs)
                    part = lambda pool: [rng.choice(pool + SIGMA_PARTS) for _ in range(rng.choice([1, 2, 2, 3]))]
                    yield ("parse_tag_is_product", {"py": part(PY), "abi": part(ABI), "plat": part(PLAT)})

    def check_law(self, law, inp):
        U, T = _utils(), _tags()
        Version = _V()
        if law == "wheel_roundtrip":
            w = _wheel(inp["w"])
            f = assemble_wheel(w)
            try:
                name, ver, build, tags = U.parse_wheel_filename(f)
            except Exception as e:
                return False, f"parse_wheel_filename({f!r}) raises {type(e).__name__}"
            if name != ref_fold(w["name"]):
                return False, f"{f!r}: name {name!r}, expected {ref_fold(w['name'])!r}"
            want_v = Version(G.normal(w["ver"]))
            if not (ver == want_v and str(ver) == str(want_v)):
                return False, f"{f!r}: version {str(ver)!r}, expected {str(want_v)!r}"
            want_b = () if w["build"] is None else (w["build"][0], w["build"][1])
            if build != want_b or type(build) is not tuple or (build and type(build[0]) is not int):
                return False, f"{f!r}: build {build!r}, expected {want_b!r}"
            want_t = {(i.lower(), a.lower(), p.lower()) for i in w["py"] for a in w["abi"] for p in w["plat"]}
            got_t = {(t.interpreter, t.abi, t.platform) for t in tags}
            if got_t != want_t or len(tags) != len(want_t) or tags != frozenset(T.Tag(*x) for x in want_t):
                return False, f"{f!r}: tags {sorted(map(str, tags))}, expected the product {sorted(want_t)}"
            # the name part as older build back ends write it: only '-' replaced, dots / upper case / runs of '_' and '.' kept
            # (a double underscore is rejected by design); the PEP 503 name is the same
            loose = w["name"].replace("-", "_")
            if "__" not in loose:
                f2 = assemble_wheel(w, name_text=loose)
                try:
                    name2 = U.parse_wheel_filename(f2)[0]
                except Exception as e:
                    return False, f"parse_wheel_filename({f2!r}) raises {type(e).__name__}"
                if name2 != ref_fold(w["name"]):
                    return False, f"{f2!r}: name {name2!r}, expected {ref_fold(w['name'])!r}"
            return True, ""
        if law == "wheel_rejects":
            w = _wheel(inp["w"])
            rng = random.Random(inp["seed"])
            f, sub = damage_wheel(rng, w, inp["damage"], inp.get("sub"))
            try:
                r = U.parse_wheel_filename(f)
            except U.InvalidWheelFilename:
                return True, ""
            except Exception as e:
                return False, f"parse_wheel_filename({f!r}) [{inp['damage']}: {sub!r}] raises {type(e).__name__}, not InvalidWheelFilename"
            return False, f"parse_wheel_filename({f!r}) [{inp['damage']}: {sub!r}] is accepted: {r[0]!r}, {str(r[1])!r}, {r[2]!r}"
        if law == "sdist_roundtrip":
            s = _sdist(inp["s"])
            f = assemble_sdist(s)
            try:
                name, ver = U.parse_sdist_filename(f)
            except Exception as e:
                return False, f"parse_sdist_filename({f!r}) raises {type(e).__name__}"
            want_v = Version(G.normal(s["ver"]))
            if name != ref_fold(s["name"]) or not (ver == want_v and str(ver) == str(want_v)):
                return False, f"{f!r}: ({name!r}, {str(ver)!r}), expected ({ref_fold(s['name'])!r}, {str(want_v)!r})"
            return True, ""
        if law == "sdist_rejects":
            s = _sdist(inp["s"])
            rng = random.Random(inp["seed"])
            d = inp["damage"]
            if d == "extension":
                f = assemble_sdist(s)[: -len(s["ext"])] + rng.choice([".tgz", ".tar", ".ZIP", ".tar.gz\n", "", ".whl", ".tar.bz2", ".TAR.GZ", ".gz"])
            elif d == "nodash":
                f = assemble_sdist(s).replace("-", rng.choice(["", "_", "+"]))
            elif d == "version":
                f = assemble_sdist(s, version_text=rng.choice(BAD_VERSIONS))
            else:
                raise KeyError(d)
            try:
                r = U.parse_sdist_filename(f)
            except U.InvalidSdistFilename:
                return True, ""
            except Exception as e:
                return False, f"parse_sdist_filename({f!r}) [{d}] raises {type(e).__name__}, not InvalidSdistFilename"
            return False, f"parse_sdist_filename({f!r}) [{d}] is accepted: {r[0]!r}, {str(r[1])!r}"
        if law == "tag_case_insensitive":
            rng = random.Random(inp["seed"])
            a = [str(x) for x in inp["t"]]
            if len(a) != 3:
                raise ValueError("t")
            b = ["".join(c.upper() if rng.random() < 0.5 else c.lower() for c in x) for x in a]
            t, u = T.Tag(*a), T.Tag(*b)
            if not (t == u and hash(t) == hash(u) and not (t != u) and len({t, u}) == 1):
                return False, f"Tag{tuple(a)} and Tag{tuple(b)} differ only in case but are not equal / hash-equal"
            if (t.interpreter, t.abi, t.platform) != tuple(x.lower() for x in a) or str(t) != "-".join(x.lower() for x in a):
                return False, f"Tag{tuple(a)} fields are not the lower-cased arguments"
            c = [a[0] + "x", a[1], a[2]]
            if T.Tag(*c) == t:
                return False, f"Tag{tuple(c)} == Tag{tuple(a)}"
            return True, ""
        if law == "parse_tag_is_product":
            parts = [[str(x) for x in inp[k]] for k in ("py", "abi", "plat")]
            if any((not ps) or any(("-" in x or "." in x or not x) for x in ps) for ps in parts):
                raise ValueError("outside the law's domain")
            text = "-".join(".".join(ps) for ps in parts)
            want = frozenset(T.Tag(i, a, p) for i in parts[0] for a in parts[1] for p in parts[2])
            got = T.parse_tag(text)
            if got != want:
                return False, (f"parse_tag({text!r}) = {sorted(map(str, got))}, the product of the dotted parts as Tags is "
                               f"{sorted(map(str, want))}")
            name = f"foo-1.0-{text}.whl"
            got2 = U.parse_wheel_filename(name)[3]
            if got2 != want:
                return False, f"parse_wheel_filename({name!r}) tags = {sorted(map(str, got2))}, expected {sorted(map(str, want))}"
            return True, ""
        if law == "parse_tag_str":
            a = [str(x) for x in inp["t"]]
            if len(a) != 3 or any(("-" in x or "." in x) for x in a):
                raise ValueError("outside the law's domain")
            t = T.Tag(*a)
            got = T.parse_tag(str(t))
            if not (got == frozenset({t}) and len(got) == 1):
                return False, f"parse_tag(str(Tag{tuple(a)})) = {sorted(map(str, got))}"
            # "is {t}" element by element too, whatever has been done with either Tag before (one has been hashed by the
            # frozenset, a fresh one has not): ==, != and membership in a sequence
            (only,) = tuple(got)
            fresh, fresh2 = T.Tag(*a), T.Tag(*a)
            steps = [("fresh == parsed", fresh == only), ("parsed == fresh", only == fresh), ("not !=", not (fresh != only)),
                     ("in tuple", fresh in tuple(got)), ("in list", only in [fresh2])]
            hash(fresh)
            steps += [("after hash(fresh): fresh == fresh2", fresh == fresh2), ("fresh2 == fresh", fresh2 == fresh),
                      ("fresh == parsed", fresh == only), ("sorted lists equal", sorted(got, key=str) == [fresh2])]
            bad = [n for n, ok in steps if ok is not True]
            return not bad, f"Tag{tuple(a)} vs the element of parse_tag(str(t)): {bad}"
        raise KeyError(law)


def _V():
    from packaging.version import Version
    return Version


def _dec_list(a):
    return [] if a == "!" else [core.dec(x) for x in a.split(",")]


def _wheel(w):
    w = dict(w)
    w["ver"] = _ver(w["ver"])
    if not (isinstance(w["name"], str) and w["name"] and all(isinstance(x, str) and x and "-" not in x and "." not in x for k in ("py", "abi", "plat") for x in w[k])
            and all(w[k] for k in ("py", "abi", "plat"))):
        raise ValueError("outside the law's domain")
    from props.C13 import ref_valid
    if not ref_valid(w["name"]):
        raise ValueError("outside the law's domain: not a valid project name")
    if w["build"] is not None:
        n, suf = w["build"]
        if not (isinstance(n, int) and n >= 0 and isinstance(suf, str)) or "-" in suf or "\n" in suf or suf[:1].isdecimal():
            raise ValueError("outside the law's domain: build")
    return w


def _sdist(s):
    s = dict(s)
    s["ver"] = _ver(s["ver"])
    if not isinstance(s["name"], str) or s["ext"] not in (".tar.gz", ".zip") or s["spelling"] not in ("raw", "escaped", "underscore", "upper"):
        raise ValueError("outside the law's domain")
    return s


def _ver(v):
    v = dict(v)
    if v.get("pre"):
        v["pre"] = (v["pre"][0], v["pre"][1])
    if not v["release"] or any((not isinstance(x, int)) or x < 0 for x in v["release"]):
        raise ValueError("outside the law's domain: release")
    if v["local"] is not None and (not v["local"] or any((isinstance(x, str) and (not x or not x.isalnum() or not x.isascii() or x.isdigit())) for x in v["local"])):
        raise ValueError("outside the law's domain: local")
    return v


from srccall import with_src  # noqa: E402

# translated source: parse_sdist_filename / parse_wheel_filename / parse_tag and Tag.__eq__ / __str__ are proved equal to
# Fn.parseSdist / parseWheel / parseTag / Tag.eq / Tag.str; compiled patterns are resolved to the tables of Gen.NameTables
# (measured from the same pattern objects), Version(...) is the scanner primitive, the frozenset is the duplicate-free
# list of tags in insertion order (PyRx.dedup)
PROP = with_src(C14(), share=10, functions=["parse_sdist_filename", "parse_wheel_filename", "parse_tag", "Tag.__eq__",
                                             "Tag.__str__", "canonicalize_name"],
                module=["PkgProofs.Props.Src.Filenames", "PkgProofs.Props.Src.TagObj", "PkgProofs.Props.Src.Names"],
                theorems=["Src.parse_sdist_filename_translated", "Src.parse_sdist_filename_eq_model",
                          "Src.parse_tag_translated", "Src.parse_tag_eq_model",
                          "Src.parse_wheel_filename_translated", "Src.parse_wheel_filename_eq_model",
                          "Src.Tag.__eq___translated", "Src.Tag.__eq___eq_fn", "Src.Tag.__str___translated",
                          "Src.Tag.__str___eq_fn", "Src.canonicalize_name_eq_model"])
