"""C15 — interpreter tag sequences are complete, duplicate-free and priority ordered."""
from __future__ import annotations

import core
import tagsglue as T
from run import Prop

_drv = None


def drv():
    global _drv
    if _drv is None:
        _drv = core.Driver()
    return _drv


# ---------------------------------------------------------------- pools
BOUNDARY_VERSIONS = [(2, 7), (3, 0), (3, 1), (3, 2), (3, 3), (3, 7), (3, 8), (3, 9), (3, 12), (3, 13), (3, 14),
                     (3,), (2,), (4,), (4, 0), (4, 1), (4, 3), (3, 20), (3, 100), (2, 0), (1, 5), (0, 0), (10, 2), (31, 0)]
ABI_POOL = ["cp38", "cp313", "cp313t", "cp313td", "cp313d", "cp27mu", "cp37m", "abi3", "none", "cp3t", "cpt", "cp",
            "cp39", "pypy38_pp73", "CP313T", "cp313T", "cp313\nt", "cp313x\nt", "cp313 t", "cp313dt", "xcp313t", "t",
            "cp313_t", "graalpy_38_native", "cp12", "c", "cp1t2", "cptt", "cp 3t", ""]
ABI_POOL_ODD_CASE = ["ABI3", "None", "Abi3", "NONE"]
PLAT_POOL = ["linux_x86_64", "manylinux_2_17_x86_64", "manylinux2014_x86_64", "macosx_11_0_arm64", "macosx_10_9_universal2",
             "any", "win_amd64", "Win32", "LINUX_X86_64", "plat1", "plat2", "plat_3", "musllinux_1_1_x86_64",
             "ios_15_0_arm64_iphoneos", "Plat1", "p", "", "a-b", "x y"]
IMPLS = ["cpython"] * 5 + ["pypy", "pypy", "python", "ironpython", "jython", "graalpy", "mything", "CPython", ""]
EXT_SUFFIXES = [".pyston-23-x86_64-linux-gnu.so", ".rustpython-07-wasm32.so", ".cpython-312-x86_64-linux-gnu.so", ".cpython-313t-x86_64-linux-gnu.so", ".cpython-310-darwin.so",
                ".cp310-win_amd64.pyd", ".cp313t-win_amd64.pyd", ".pyd", ".so", ".pypy38-pp73-x86_64-linux-gnu.so",
                ".pypy39-pp73-darwin.so", ".graalpy-38-native-x86_64-darwin.dylib", ".graalpy-38.so",
                ".pyston-23-x86_64-linux-gnu.so", "..so", ".cpython.so", "", "so", None, 3, ".abi3.so",
                ".cpython-3.12 x.so", ".pypy39.so", ".cp.x", ".a.b.c.d", ".iron python-3.so", ".cpython-.so", ".pypy.x"]


def gen_ver(rng, allow_odd=True):
    r = rng.random()
    if r < 0.5:
        return list(rng.choice(BOUNDARY_VERSIONS))
    if r < 0.85:
        return [rng.choice([2, 3, 3, 3, 3, 4]), rng.randrange(0, 26)]
    if r < 0.95 or not allow_odd:
        return [rng.choice([2, 3, 3, 4, 12])]
    return [3, rng.choice([1, 2, 8, 13]), rng.randrange(0, 4)]


def gen_abis(rng, odd_case=True):
    n = rng.choice([0, 1, 1, 1, 2, 2, 3, 4])
    pool = ABI_POOL + (ABI_POOL_ODD_CASE if odd_case else [])
    xs = [rng.choice(pool) for _ in range(n)]
    if xs and rng.random() < 0.35:
        xs[0] = rng.choice(["cp313t", "cp314t", "cp313td", "cp313", "cp3t", "abi3", "none"])
    if rng.random() < 0.25:
        xs.insert(rng.randrange(len(xs) + 1), rng.choice(["abi3", "none"]))
    return xs


def gen_plats(rng, allow_empty=True):
    r = rng.random()
    if r < 0.08 and allow_empty:
        return []
    if r < 0.12:
        return [f"plat{i}" for i in range(rng.randrange(7, 40))]
    n = rng.choice([1, 1, 2, 2, 3, 4, 5, 6])
    xs = [rng.choice(PLAT_POOL) for _ in range(n)]
    if rng.random() < 0.6:                      # mostly without repeats
        seen, ys = set(), []
        for x in xs:
            if x.lower() not in seen:
                seen.add(x.lower()); ys.append(x)
        xs = ys
    return xs


def gen_platform_probe(rng):
    r = rng.random()
    if r < 0.45:
        return {"system": rng.choice(["VerifOS", "Windows", "FreeBSD", ""]),
                "get_platform": rng.choice(["verif-os-1.0", "win-amd64", "freebsd-13.2-RELEASE-amd64", "a b.c-d"])}
    if r < 0.65:
        v = rng.choice(["10.9", "10.15.7", "11.0", "12.3.1", "14.5", "10.4", "10.3", "11.7.10"])
        return {"system": "Darwin", "mac_ver": [v, rng.choice(["x86_64", "arm64", "i386", "ppc", "ppc64"])]}
    if r < 0.9:
        g = rng.choice(["2.4", "2.5", "2.12", "2.17", "2.18", "2.31", "2.36", "3.1", "2.17-2014.11", "junk"])
        return {"system": "Linux", "get_platform": rng.choice(["linux-x86_64", "linux-ppc64le", "linux-mips"]),
                "confstr": "glibc " + g, "ctypes_version": None, "policy": None}
    return {"system": "iOS", "ios": [rng.choice(["12.0", "13.4.1", "15.2", "17.10", "11.4"]),
                                     rng.choice(["arm64-iphoneos", "arm64-iphonesimulator", "x86_64-iphonesimulator"])]}


def gen_probe(rng, consistent=False):
    x, y = rng.choice([(3, 12), (3, 13), (3, 13), (3, 14), (3, 7), (3, 8), (3, 2), (3, 3), (2, 7), (3, 10), (3, 1),
                       (3, rng.randrange(0, 20))])
    tri = lambda: rng.choice([None, None, 0, 1])
    nodot = f"{x}{y}"
    if not consistent:
        nodot = rng.choice([None, nodot, nodot, nodot, "", 0, int(nodot), "313t", "39"])
    else:
        nodot = rng.choice([None, nodot, nodot])
    d = {
        "sys_version": [x, y],
        "impl_name": "cpython" if consistent and rng.random() < 0.5 else rng.choice(IMPLS),
        "config": {
            "py_version_nodot": nodot,
            "Py_DEBUG": tri(), "Py_GIL_DISABLED": tri(), "WITH_PYMALLOC": tri(),
            "Py_UNICODE_SIZE": rng.choice([None, None, 2, 4]),
            "EXT_SUFFIX": rng.choice(EXT_SUFFIXES),
        },
        "has_refcount": rng.random() < 0.3,
        "has_debug_ext": rng.random() < 0.2,
        "max_unicode_wide": rng.random() < 0.7,
    }
    d.update(gen_platform_probe(rng))
    return d


DEFAULT_PROBE = {"system": "VerifOS", "get_platform": "verif-os-1.0"}


def detected_platforms(probe):
    from packaging import tags
    with T.probes(probe):
        return list(tags.platform_tags())


def enc_cfg(probe, detected=None):
    if detected is None:
        detected = detected_platforms(probe)
    c = probe.get("config", {})
    fields = [
        ",".join(str(v) for v in probe["sys_version"]),
        core.enc(probe["impl_name"]),
        T.enc_cv(c.get("py_version_nodot")), T.enc_cv(c.get("Py_DEBUG")), T.enc_cv(c.get("Py_GIL_DISABLED")),
        T.enc_cv(c.get("WITH_PYMALLOC")), T.enc_cv(c.get("Py_UNICODE_SIZE")),
        core.encb(probe["has_refcount"]), core.encb(probe["has_debug_ext"]), core.encb(probe["max_unicode_wide"]),
        T.enc_cv(c.get("EXT_SUFFIX")),
        ",".join(core.enc(x) for x in detected),
        T.enc_json(probe),
    ]
    return "c" + ";".join(fields)


def dec_cfg(a):
    fields = a[1:].split(";")
    probe = T.dec_json(fields[12])
    detected = [core.dec(x) for x in fields[11].split(",")] if fields[11] else []
    return probe, detected


# ---------------------------------------------------------------- the statement, computed independently (laws)
def is_free_threaded(abi):
    if not abi.startswith("cp"):
        return False
    rest = abi[2:]
    i = 0
    while i < len(rest) and rest[i] in "0123456789":
        i += 1
    if i == 0:
        return False
    flags = rest[i:].split("\n", 1)[0]
    return "t" in flags


def low(t):
    return tuple(x.lower() for x in t)


def spec_cpython(ver, abis, plats):
    given = list(abis)                      # an explicit abi3/none is taken out (once): it has its fixed position
    for x in ("abi3", "none"):
        if x in given:
            given.remove(x)
    interp = "cp" + "".join(map(str, ver))
    ok = (len(ver) == 2 and (ver[0] > 3 or (ver[0] == 3 and ver[1] >= 2))
          and not (given and is_free_threaded(given[0])))
    out = [(interp, a, p) for a in given for p in plats]
    if ok:
        out += [(interp, "abi3", p) for p in plats]
    out += [(interp, "none", p) for p in plats]
    if ok:
        out += [(f"cp{ver[0]}{z}", "abi3", p) for z in reversed(range(2, ver[1])) for p in plats]
    return [low(t) for t in out]


def spec_py_range(ver):
    if len(ver) == 1:
        return [f"py{ver[0]}"]
    return [f"py{ver[0]}{ver[1]}", f"py{ver[0]}"] + [f"py{ver[0]}{z}" for z in reversed(range(0, ver[1]))]


def spec_compatible(ver, interp, plats):
    rng_ = spec_py_range(ver)
    out = [(v, "none", p) for v in rng_ for p in plats]
    if interp:
        out.append((interp, "none", "any"))
    out += [(v, "none", "any") for v in rng_]
    return [low(t) for t in out]


def spec_generic(interp, abis, plats):
    abis = list(abis) + ([] if "none" in abis else ["none"])
    return [low((interp, a, p)) for a in abis for p in plats]


def spec_default_abis(ver, debug, gil, pymalloc, wide):
    x, y = ver
    ge = lambda a, b: (x, y) >= (a, b)
    v = f"cp{x}{y}"
    t = "t" if ge(3, 13) and gil else ""
    d = "d" if debug else ""
    m = "m" if not ge(3, 8) and pymalloc else ""
    u = "u" if not ge(3, 3) and wide else ""
    return [v + t + d + m + u] + ([v + t] if ge(3, 8) and debug else [])


def probe_flags(probe):
    """(debug, gil, pymalloc, wide) as the statement's configuration words them"""
    c = probe["config"]
    dbg = c.get("Py_DEBUG")
    debug = bool(dbg) or (dbg is None and (probe["has_refcount"] or probe["has_debug_ext"]))
    gil = bool(c.get("Py_GIL_DISABLED"))
    pm = c.get("WITH_PYMALLOC")
    pymalloc = bool(pm) or pm is None
    us = c.get("Py_UNICODE_SIZE")
    wide = us == 4 or (us is None and probe["max_unicode_wide"])
    return debug, gil, pymalloc, wide


def triples(ts):
    return [(t.interpreter, t.abi, t.platform) for t in ts]


def no_repeats(xs):
    return len(set(xs)) == len(xs)


def fmt(ts, k=6):
    s = ["-".join(t) for t in ts[:k]]
    return "[" + ", ".join(s) + (", …" if len(ts) > k else "") + f"] ({len(ts)})"


def first_diff(got, want):
    for i, (g, w) in enumerate(zip(got, want)):
        if g != w:
            return f"at index {i}: got {'-'.join(g)}, statement says {'-'.join(w)}"
    return f"lengths differ: got {len(got)}, statement says {len(want)}; got {fmt(got)} want {fmt(want)}"


class C15(Prop):
    id = "C15"
    lean_modules = ["PkgProofs.Props.C15"]
    generated = ["TagTables"]
    theorems = [
        "C15.cpython_eq_spec", "C15.cpython_empty_platforms", "C15.cpython_defaults",
        "C15.compatible_eq_spec", "C15.compatible_empty_platforms", "C15.generic_eq_spec",
        "C15.sys_is_concat", "C15.sys_eq_spec_cpython",
        "C15.cpython_platform_order_kept", "C15.compatible_platform_order_kept", "C15.generic_platform_order_kept",
        "C15.cpython_nodup", "C15.compatible_nodup", "C15.generic_nodup",
        "C15.compatible_repeats_interp_in_py_range", "C15.compatible_repeats_platform_any", "C15.cpython_repeats_abi3_other_case",
        "C15.abi3_from_3_2_only", "C15.abi3_down_to_3_2", "C15.no_abi3_when_threaded",
        "C15.major_only_yields_given_abis_and_none", "C15.default_abis_table", "C15.short_names_table",
    ]
    rule = ("cpython_tags / compatible_tags / generic_tags / sys_tags / _cpython_abis / _generic_abi on versions "
            "(2.x, 3.0..3.25, 4.x, major-only, empty, None; boundaries 2.7/3.1/3.2/3.3/3.7/3.8/3.12/3.13 on purpose), ABI lists "
            "(explicit abi3/none, free-threaded and look-alike names, mixed case, repeats, None), platform lists (empty, "
            "None, 1-40 entries, mixed case, repeats) and interpreter configurations injected at the sysconfig/sys/"
            "platform/importlib boundary; detected platforms come from the real platform_tags() under generic, "
            "Darwin, Linux(glibc) and iOS probes; non-trivial = a non-empty tag list; distinct = distinct protocol lines")
    trusted = ["str.lower and \\d restricted to ASCII inputs (Tag lower-casing modelled by ASCII lower-casing)",
               "list(platform_tags()) enters the C15 model as data (its content is C16's subject)",
               "config values are None, non-negative ints or strs"]
    partial = ["non-ASCII ABI/platform/interpreter strings (str.lower, \\d outside ASCII) are outside model and theorems",
               "three-or-more-component python_version tuples are modelled and compared but not covered by the refinement theorems",
               "no-repeat theorems assume no ABI is a differently-cased spelling of abi3/none (e.g. 'ABI3'), no platform is 'any' "
               "and the interpreter given to compatible_tags is not itself in the py range: such inputs have no repeats but "
               "collide with the tags the functions add themselves (after Tag lower-casing); the negations are proved at "
               "concrete witnesses (C15.*_repeats_*) and the class is a known finding"]
    budget = {"quick": (2500, 2500), "thorough": (40000, 40000)}

    # ---- correspondence
    def gen_cases(self, rng, n):
        probes = [gen_probe(rng) for _ in range(max(6, n // 60))]
        cfgs = []
        for p in probes:
            try:
                cfgs.append(enc_cfg(p))
            except Exception:
                pass
        k = 0
        while k < n:
            cfg = rng.choice(cfgs)
            r = rng.random()
            ver = None if rng.random() < 0.07 else ([] if rng.random() < 0.03 else gen_ver(rng))
            plats = None if rng.random() < 0.1 else gen_plats(rng)
            if r < 0.4:
                abis = None if rng.random() < 0.25 else gen_abis(rng)
                yield ("tags.cpython", [cfg, T.enc_ver(ver), T.enc_ostrs(abis), T.enc_ostrs(plats)])
            elif r < 0.6:
                interp = rng.choice([None, None, "", "cp312", "pp3", "py3", "py312", "PP3", "foo", "any"])
                yield ("tags.compatible", [cfg, T.enc_ver(ver), core.enc(interp), T.enc_ostrs(plats)])
            elif r < 0.8:
                interp = rng.choice([None, "", "pp39", "cp312", "ip27", "graalpy242", "Foo1", "x"])
                abis = None if rng.random() < 0.3 else gen_abis(rng)
                yield ("tags.generic", [cfg, core.enc(interp), T.enc_ostrs(abis), T.enc_ostrs(plats)])
            elif r < 0.88:
                yield ("tags.sys", [cfg])
            elif r < 0.96:
                v = gen_ver(rng)
                while len(v) < 2:
                    v = gen_ver(rng)
                yield ("tags.abis", [cfg, T.enc_ver(v)])
            else:
                yield ("tags.generic_abi", [cfg])
            k += 1

    def real(self, op, args):
        from packaging import tags
        probe, detected = dec_cfg(args[0])
        with T.probes(probe):
            if list(tags.platform_tags()) != detected:
                raise RuntimeError("probe does not reproduce the detected platforms")
            try:
                if op == "tags.cpython":
                    ver, abis, plats = T.dec_ver(args[1]), T.dec_ostrs(args[2]), T.dec_ostrs(args[3])
                    return T.enc_tags(list(tags.cpython_tags(ver, abis=abis, platforms=plats)))
                if op == "tags.compatible":
                    ver, interp, plats = T.dec_ver(args[1]), core.dec(args[2]), T.dec_ostrs(args[3])
                    return T.enc_tags(list(tags.compatible_tags(ver, interpreter=interp, platforms=plats)))
                if op == "tags.generic":
                    interp, abis, plats = core.dec(args[1]), T.dec_ostrs(args[2]), T.dec_ostrs(args[3])
                    return T.enc_tags(list(tags.generic_tags(interp, abis=abis, platforms=plats)))
                if op == "tags.sys":
                    return T.enc_tags(list(tags.sys_tags()))
                if op == "tags.abis":
                    return T.enc_strlist_out(tags._cpython_abis(T.dec_ver(args[1])))
                if op == "tags.generic_abi":
                    return T.enc_strlist_out(tags._generic_abi())
            except Exception as e:
                return "raw " + type(e).__name__
        raise KeyError(op)

    def nontrivial(self, op, args, out):
        return out.startswith("ok ") and len(out) > 3

    def branch(self, op, args, out):
        if not out.startswith("ok"):
            return op + ":" + out[:24]
        n = out.count(";") + 1 if len(out) > 3 else 0
        size = "0" if n == 0 else "1-9" if n < 10 else "10-99" if n < 100 else "100+"
        extra = ""
        if op in ("tags.cpython", "tags.compatible"):
            v = T.dec_ver(args[1])
            extra = ":ver=" + ("default" if not v else "major-only" if len(v) == 1 else
                               "<3.2" if tuple(v) < (3, 2) else ">=3.2")
            if op == "tags.cpython":
                a = T.dec_ostrs(args[2])
                extra += ":abis=" + ("default" if a is None else "threaded" if [x for x in a if x not in ("abi3", "none")][:1]
                                     and is_free_threaded([x for x in a if x not in ("abi3", "none")][0]) else "given")
            p = T.dec_ostrs(args[3])
            extra += ":plats=" + ("default" if p is None else "empty" if not p else "given")
        return f"{op}{extra}:n={size}"

    def judge(self, op, args, real, model, driver):
        # refinement property: with explicit inputs a disagreement is a violation iff the real code
        # disagrees with the statement's sequence
        if op == "tags.cpython":
            ver, abis, plats = T.dec_ver(args[1]), T.dec_ostrs(args[2]), T.dec_ostrs(args[3])
            if ver and abis is not None and plats is not None and len(ver) in (1, 2):
                return ("cpython_is_spec", {"ver": list(ver), "abis": abis, "plats": plats})
        if op == "tags.compatible":
            ver, interp, plats = T.dec_ver(args[1]), core.dec(args[2]), T.dec_ostrs(args[3])
            if ver and plats is not None and len(ver) in (1, 2):
                return ("compatible_is_spec", {"ver": list(ver), "interp": interp, "plats": plats})
        if op == "tags.generic":
            interp, abis, plats = core.dec(args[1]), T.dec_ostrs(args[2]), T.dec_ostrs(args[3])
            if interp and abis is not None and plats is not None:
                return ("generic_is_spec", {"interp": interp, "abis": abis, "plats": plats})
        return None

    # ---- laws on the real code
    def gen_laws(self, rng, n):
        # boundary grid first
        for ver in BOUNDARY_VERSIONS:
            for abis in ([f"cp{''.join(map(str, ver))}"], ["cp313t"], []):
                yield ("cpython_is_spec", {"ver": list(ver), "abis": abis, "plats": ["plat1", "Plat2"]})
            yield ("compatible_is_spec", {"ver": list(ver), "interp": "cp" + "".join(map(str, ver)), "plats": ["plat1"]})
        yield ("cpython_is_spec", {"ver": [3, 8], "abis": ["cp38"], "plats": []})
        yield ("compatible_is_spec", {"ver": [3, 8], "interp": None, "plats": []})
        yield ("generic_is_spec", {"interp": "pp39", "abis": ["pypy39_pp73"], "plats": []})
        k = 0
        while k < n:
            r = rng.random()
            sd = rng.randrange(1 << 30)
            if r < 0.3:
                abis = gen_abis(rng, odd_case=rng.random() < 0.3)
                yield ("cpython_is_spec", {"ver": gen_ver(rng, False), "abis": abis, "plats": gen_plats(rng)})
            elif r < 0.45:
                yield ("compatible_is_spec", {"ver": gen_ver(rng, False), "interp": rng.choice([None, "", "cp312", "pp3", "Foo"]),
                                              "plats": gen_plats(rng)})
            elif r < 0.6:
                yield ("generic_is_spec", {"interp": rng.choice(["pp39", "cp312", "Foo1", "x"]), "abis": gen_abis(rng),
                                           "plats": gen_plats(rng)})
            elif r < 0.8:
                which = rng.choice(["cpython", "compatible", "generic"])
                plats = _dedup_lower(gen_plats(rng, allow_empty=False))
                abis = _dedup_lower(gen_abis(rng, odd_case=False))
                ver = gen_ver(rng, False)
                interp = rng.choice(["pp39", "cp312", "Foo1", "ip27", None])
                if rng.random() < 0.12:
                    # inputs without repeats that collide with what the functions add themselves
                    k = rng.randrange(3)
                    if k == 0 and len(ver) in (1, 2):
                        interp = rng.choice(spec_py_range(tuple(ver)))
                    elif k == 1:
                        plats = plats + [rng.choice(["any", "ANY"])]
                    else:
                        abis = abis + [rng.choice(["ABI3", "None", "NONE"])]
                yield ("no_repeats", {"which": which, "ver": ver, "abis": abis, "plats": plats, "interp": interp})
            elif r < 0.85:
                yield ("generic_default_abi", {"probe": gen_probe(rng), "interp": rng.choice(["pyston38", "pp310", "rustpython312", "xx1"])})
            elif r < 0.9:
                yield ("sys_is_concat", {"probe": gen_probe(rng, consistent=True)})
            else:
                p = gen_probe(rng)
                v = gen_ver(rng, False)
                while len(v) < 2:
                    v = gen_ver(rng, False)
                yield ("default_abis", {"probe": p, "ver": v})
            k += 1

    def check_law(self, law, inp):
        try:
            return self._check_law(law, inp)
        except T.OutOfDomain as e:
            return True, "outside the law's domain: " + str(e)

    def _check_law(self, law, inp):
        from packaging import tags
        if law in ("cpython_is_spec", "compatible_is_spec", "generic_is_spec"):
            plats = inp["plats"]
            strings = list(plats) + list(inp.get("abis") or []) + [inp.get("interp") or ""]
            if not all(isinstance(s, str) and T.is_ascii(s) for s in strings):
                raise T.OutOfDomain("outside the law's domain: non-ASCII")
            probe = inp.get("probe") or DEFAULT_PROBE
            with T.probes(probe):
                if law == "cpython_is_spec":
                    ver, abis = tuple(inp["ver"]), inp["abis"]
                    if len(ver) not in (1, 2):
                        raise T.OutOfDomain("outside the law's domain")
                    got = triples(tags.cpython_tags(ver, abis=list(abis), platforms=list(plats)))
                    want = spec_cpython(ver, abis, plats)
                elif law == "compatible_is_spec":
                    ver = tuple(inp["ver"])
                    if len(ver) not in (1, 2):
                        raise T.OutOfDomain("outside the law's domain")
                    got = triples(tags.compatible_tags(ver, interpreter=inp["interp"], platforms=list(plats)))
                    want = spec_compatible(ver, inp["interp"], plats)
                else:
                    if not inp["interp"]:
                        raise T.OutOfDomain("outside the law's domain")
                    got = triples(tags.generic_tags(inp["interp"], abis=list(inp["abis"]), platforms=list(plats)))
                    want = spec_generic(inp["interp"], inp["abis"], plats)
            if got != want:
                return False, f"{law[:-8]}_tags with platforms={plats!r}: " + first_diff(got, want)
            # the parameters are Iterables: a tuple, a one-shot iterator and a generator of the same items give the same tags
            for name, wrap in (("tuple", tuple), ("iterator", lambda l: iter(list(l))), ("generator", lambda l: (x for x in list(l)))):
                with T.probes(probe):
                    if law == "cpython_is_spec":
                        alt = triples(tags.cpython_tags(tuple(inp["ver"]), abis=wrap(inp["abis"]), platforms=wrap(plats)))
                    elif law == "compatible_is_spec":
                        alt = triples(tags.compatible_tags(tuple(inp["ver"]), interpreter=inp["interp"], platforms=wrap(plats)))
                    else:
                        alt = triples(tags.generic_tags(inp["interp"], abis=wrap(inp["abis"]), platforms=wrap(plats)))
                if alt != got:
                    return False, f"{law[:-8]}_tags given a {name} instead of a list (platforms={plats!r}): " + first_diff(alt, got)
            # … and the caller's own list objects are neither changed nor needed afterwards: the same lists, reused for the
            # other generators after this one ran, give what fresh lists give
            if law != "compatible_is_spec":
                la, lp = list(inp["abis"]), list(plats)
                with T.probes(probe):
                    if law == "cpython_is_spec":
                        triples(tags.cpython_tags(tuple(inp["ver"]), abis=la, platforms=lp))
                    else:
                        triples(tags.generic_tags(inp["interp"], abis=la, platforms=lp))
                    if la != list(inp["abis"]) or lp != list(plats):
                        return False, (f"{law[:-8]}_tags changed the caller's lists: abis {list(inp['abis'])!r} -> {la!r}, "
                                       f"platforms {list(plats)!r} -> {lp!r}")
            return True, ""
        if law == "no_repeats":
            ver, abis, plats, interp = tuple(inp["ver"]), inp["abis"], inp["plats"], inp["interp"]
            if not all(T.is_ascii(s) for s in list(abis) + list(plats) + [interp or ""]):
                raise T.OutOfDomain("non-ASCII")
            if not plats or not no_repeats([p.lower() for p in plats]) or not no_repeats([a.lower() for a in abis]):
                raise T.OutOfDomain("inputs have repeats")
            # (an ABI spelled `ABI3` / `None`, a platform `any` and an interpreter inside the py range are inputs without
            # repeats too: the repeats they cause are the known finding c15_colliding_inputs)
            if len(ver) not in (1, 2):
                raise T.OutOfDomain("outside the law's domain")
            which = inp["which"]
            with T.probes(DEFAULT_PROBE):
                if which == "cpython":
                    got = triples(tags.cpython_tags(ver, abis=list(abis), platforms=list(plats)))
                elif which == "compatible":
                    got = triples(tags.compatible_tags(ver, interpreter=interp, platforms=list(plats)))
                elif which == "generic":
                    if not interp:
                        raise T.OutOfDomain("outside the law's domain")
                    got = triples(tags.generic_tags(interp, abis=list(abis), platforms=list(plats)))
                else:
                    raise KeyError(which)
            if not no_repeats(got):
                seen = set()
                dup = next(t for t in got if t in seen or seen.add(t))
                return False, f"{which}_tags repeats {'-'.join(dup)} although the inputs have no repeats"
            # within each block (maximal run of one interpreter/ABI pair) platforms keep the caller's order
            import itertools
            lp = [p.lower() for p in plats]
            for key, run in itertools.groupby(got, key=lambda t: (t[0], t[1])):
                ps = [t[2] for t in run]
                if ps != lp and not (which == "compatible" and ps in (["any"], lp + ["any"])):
                    return False, f"{which}_tags block {key} lists platforms {ps[:6]}, the caller's order is {lp[:6]}"
            return True, ""
        if law == "sys_is_concat":
            probe = inp["probe"]
            with T.probes(probe):
                detected = list(tags.platform_tags())
                try:
                    got = triples(tags.sys_tags())
                except Exception:
                    raise T.OutOfDomain("sys_tags raises under this configuration (outside the law's domain)")
                name = tags.interpreter_name()
                ver = tuple(probe["sys_version"])
                nodot = probe["config"].get("py_version_nodot")
                version = str(nodot) if nodot else "".join(map(str, ver))
                if name == "cp":
                    first = spec_cpython(ver, spec_default_abis(ver, *probe_flags(probe)), detected)
                    interp = "cp" + version
                else:
                    first = spec_generic(name + version, tags._generic_abi(), detected)
                    interp = "pp3" if name == "pp" else None
                want = first + spec_compatible(ver, interp, detected)
            if not detected:
                raise T.OutOfDomain("no platform detected")
            if got != want:
                return False, "sys_tags is not interpreter-specific ++ compatible: " + first_diff(got, want)
            return True, ""
        if law == "generic_default_abi":
            # generic_tags with the ABI left to the interpreter's EXT_SUFFIX: whatever the suffix, each yielded tag is a
            # well-formed <interp>-<abi>-<plat> triple (no '-' or '.' inside a component) and reads back through parse_tag
            probe = inp["probe"]
            with T.probes(probe):
                try:
                    ts = list(tags.generic_tags(interpreter=inp["interp"], abis=None, platforms=["plat_a", "plat_b"]))
                except Exception:
                    raise T.OutOfDomain("generic_tags raises under this configuration")
            for t in ts:
                for part in (t.interpreter, t.abi, t.platform):
                    if "-" in part or "." in part or not part:
                        return False, f"EXT_SUFFIX={probe['config'].get('EXT_SUFFIX')!r}: tag {str(t)!r} has the malformed component {part!r}"
                if tags.parse_tag(str(t)) != frozenset({t}):
                    return False, f"EXT_SUFFIX={probe['config'].get('EXT_SUFFIX')!r}: parse_tag({str(t)!r}) != {{t}}"
            if not ts or (ts[-1].abi != "none"):
                return False, f"generic_tags does not end with the none ABI: {[str(t) for t in ts]}"
            return True, ""
        if law == "default_abis":
            probe, ver = inp["probe"], tuple(inp["ver"])
            if len(ver) != 2:
                raise T.OutOfDomain("outside the law's domain")
            with T.probes(probe):
                got = tags._cpython_abis(ver)
            want = spec_default_abis(ver, *probe_flags(probe))
            return got == want, f"_cpython_abis({ver}) = {got}, configuration table says {want}"
        raise KeyError(law)


def _at_most_once(abis):
    out = []
    for a in abis:
        if a in ("abi3", "none") and a in out:
            continue
        out.append(a)
    return out


def _dedup_lower(xs):
    seen, out = set(), []
    for x in xs:
        if x.lower() not in seen:
            seen.add(x.lower()); out.append(x)
    return out


from srccall import with_src  # noqa: E402

# translated source: the interpreter-tag generators are proved equal to the model functions of PkgModel/Tags.lean;
# interpreter probes (sys.version_info, platform_tags(), sysconfig.get_config_var, ...) are read from an environment
# table (PyRt.Env), which Src.envOfCfg builds from the model's configuration record
PROP = with_src(C15(), share=5, functions=[
                    "_version_nodot", "_py_interpreter_range", "_abi3_applies", "_is_threaded_cpython", "compatible_tags",
                    "cpython_tags", "_cpython_abis", "_get_config_var", "Tag.__str__", "Tag.__eq__", "Tag.__hash__",
                    "_normalize_string", "interpreter_name", "interpreter_version", "_generic_abi", "generic_tags", "sys_tags"],
                module=["PkgProofs.Props.Src.Tags", "PkgProofs.Props.Src.TagObj", "PkgProofs.Props.Src.Tags2"],
                theorems=["Src._version_nodot_translated", "Src._version_nodot_eq_model",
                          "Src._py_interpreter_range_translated", "Src._py_interpreter_range_eq_model",
                          "Src._abi3_applies_translated", "Src._abi3_applies_eq_model",
                          "Src._is_threaded_cpython_translated", "Src._is_threaded_cpython_eq_model",
                          "Src.Tag.__init___translated", "Src.Tag.__init___eq_model",
                          "Src.compatible_tags_translated", "Src.compatible_tags_eq_model",
                          "Src._get_config_var_translated", "Src._get_config_var_eq_model",
                          "Src._cpython_abis_translated", "Src._cpython_abis_eq_model",
                          "Src.cpython_tags_translated", "Src.cpython_tags_eq_model",
                          "Src.Tag.__str___translated", "Src.Tag.__str___eq_model",
                          "Src.Tag.__eq___translated", "Src.Tag.__eq___eq_model", "Src.Tag.__eq___other",
                          "Src.Tag.__hash___translated", "Src.Tag.__hash___eq_model", "Src.Tag.__hash___agrees",
                          "Src._normalize_string_translated", "Src._normalize_string_eq_model",
                          "Src.interpreter_name_translated", "Src.interpreter_name_eq_model",
                          "Src.interpreter_version_translated", "Src.interpreter_version_eq_model",
                          "Src._generic_abi_translated", "Src._generic_abi_eq_model",
                          "Src.generic_tags_translated", "Src.generic_tags_eq_model",
                          "Src.sys_tags_translated", "Src.sys_tags_eq_model"])
