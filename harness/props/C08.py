"""C08 — Requirement parsing decomposes PEP 508 strings faithfully."""
from __future__ import annotations

import random

import core
from gen import misc as GM
from gen import specifiers as GS
from gen import versions as GV
from run import Prop

URLS = ["https://example.com/pkg-1.0.whl", "file:///tmp/x", "git+https://h/r@v1#egg=x", "http://a/b?c=d&e=f", "svn+ssh://u@h/p;x"]


def W(rng, must=False):
    """optional whitespace (PEP 508 `wsp*`: space or tab)"""
    if must:
        return rng.choice([" ", "  ", "\t", " \t"])
    return rng.choice(["", "", " ", "  ", "\t"])


def req_struct(rng):
    st = {"name": rng.choice(GM.NAMES), "extras": rng.sample(["a", "B_c", "d.e", "f", "g-h", "x1"], rng.randrange(0, 4)) if rng.random() < 0.5 else [],
          "clauses": [], "paren": False, "url": None, "marker": None}
    if rng.random() < 0.2:
        st["url"] = rng.choice(URLS)
    else:
        near = GV.struct(rng)
        st["clauses"] = [GS.spell_clause(rng, GS.clause_struct(rng, near=near), ws=False) for _ in range(rng.randrange(0, 4))]
        st["clauses"] = [c for c in st["clauses"] if "," not in c and ";" not in c]
        st["paren"] = bool(st["clauses"]) and rng.random() < 0.3
    if rng.random() < 0.5:
        st["marker"] = GM.marker(rng, 2)
    return st


def _join_clauses(rng, clauses, loose):
    """clauses joined by `wsp* ',' wsp*`; unless ``loose``, no white space directly after the comma that follows an
    `===` clause (that layout is known finding F05 and is exercised by parts_recovered only)"""
    out = ""
    for i, c in enumerate(clauses):
        if i:
            prev_arbitrary = clauses[i - 1].lstrip().startswith("===")
            out += (W(rng, must=True) if prev_arbitrary else W(rng)) + "," + W(rng)
        out += c
    return out


def render(rng, st, loose=False):
    """the PEP 508 string with random optional whitespace at every `wsp*` position"""
    s = W(rng) + st["name"] + W(rng)
    if st["extras"] or rng.random() < 0.1:
        s += "[" + W(rng) + (W(rng) + "," + W(rng)).join(st["extras"]) + W(rng) + "]" + W(rng)
    if st["url"] is not None:
        s += "@" + W(rng) + st["url"]
        if st["marker"] is not None:
            s += W(rng, must=True) + ";" + W(rng) + st["marker"] + W(rng)
        else:
            s += W(rng)
        return s
    cl = (W(rng) + "," + W(rng)).join(st["clauses"]) if loose else _join_clauses(rng, st["clauses"], loose)
    if st["paren"]:
        s += "(" + W(rng) + cl + W(rng) + ")"
    else:
        s += cl
    s += W(rng)
    if st["marker"] is not None:
        s += ";" + W(rng) + st["marker"] + W(rng)
    return s


class C08(Prop):
    id = "C08"
    claim = False          # not registered in MANIFEST.json until its theorems are in
    lean_modules = []
    theorems = []
    rule = ("requirement structures (name, extras, clause list in any spelling, parenthesised or not, URL, marker) rendered with "
            "random optional whitespace at every wsp* position of the PEP 508 grammar, plus damaged variants; "
            "non-trivial = accepted by Requirement")
    budget = {"quick": (0, 4000), "thorough": (0, 120000)}

    def gen_laws(self, rng, n):
        for i in range(n):
            st = req_struct(rng)
            k = i % 10
            if k < 5:
                yield ("parts_recovered", {"st": st, "seed": rng.randrange(1 << 30)})
            elif k < 8:
                yield ("str_roundtrip", {"st": st, "seed": rng.randrange(1 << 30)})
            elif k < 9:
                yield ("eq_semantics", {"st": st, "seed": rng.randrange(1 << 30)})
            else:
                yield ("url_rules", {"st": st, "seed": rng.randrange(1 << 30)})

    def check_law(self, law, inp):
        from packaging.markers import Marker
        from packaging.requirements import InvalidRequirement, Requirement
        from packaging.specifiers import SpecifierSet
        from packaging.utils import canonicalize_name
        st = inp["st"]
        rng = random.Random(inp["seed"])
        if not st["name"] or not isinstance(st["clauses"], list):
            raise ValueError("bad structure")
        import re as _re
        ident = _re.compile(r"^[A-Za-z0-9]([A-Za-z0-9._-]*[A-Za-z0-9])?$")
        if not ident.match(st["name"]) or not all(isinstance(e, str) and ident.match(e) for e in st["extras"]):
            raise ValueError("bad identifier")
        from packaging.specifiers import Specifier
        for c in st["clauses"]:
            Specifier(c)                      # outside the law's domain unless every clause is a valid clause
        if st["url"] is not None and (not st["url"] or any(ch in st["url"] for ch in " \t")):
            raise ValueError("bad url")
        if st["marker"] is not None:
            Marker(st["marker"])
        s = render(rng, st, loose=(law == "parts_recovered"))
        if law != "parts_recovered":
            try:
                Requirement(s)
            except InvalidRequirement:
                return True, "rejected (reported by parts_recovered)"
        if law == "parts_recovered":
            try:
                r = Requirement(s)
            except InvalidRequirement as e:
                return False, f"PEP 508 string rejected: {s!r}: {str(e).splitlines()[0]}"
            if r.name != st["name"]:
                return False, f"{s!r}: name {r.name!r} != {st['name']!r}"
            if r.extras != set(st["extras"]):
                return False, f"{s!r}: extras {r.extras!r} != {set(st['extras'])!r}"
            want = SpecifierSet(",".join(st["clauses"]))
            if r.specifier != want or len(r.specifier) != len(want):
                return False, f"{s!r}: specifier {str(r.specifier)!r} != {str(want)!r}"
            if r.url != st["url"]:
                return False, f"{s!r}: url {r.url!r} != {st['url']!r}"
            if st["marker"] is None:
                if r.marker is not None:
                    return False, f"{s!r}: marker invented: {r.marker}"
            else:
                m = Marker(st["marker"])
                if r.marker != m or str(r.marker) != str(m) or hash(r.marker) != hash(m):
                    return False, f"{s!r}: marker {str(r.marker)!r} != Marker(text) {str(m)!r}"
            return True, ""
        if law == "str_roundtrip":
            r = Requirement(s)
            t = str(r)
            try:
                r2 = Requirement(t)
            except InvalidRequirement as e:
                return False, f"str(Requirement({s!r})) = {t!r} does not parse: {str(e).splitlines()[0]}"
            if str(r2) != t:
                return False, f"str not idempotent: {t!r} -> {str(r2)!r}"
            if not (r2 == r) or hash(r2) != hash(r):
                return False, f"re-parsed requirement differs (==: {r2 == r}, hash equal: {hash(r2) == hash(r)}) for {t!r}"
            # deterministic rendering: sorted extras, sorted clauses, '@ url', '; marker'
            s2 = render(random.Random(inp["seed"] + 1), dict(st, extras=list(reversed(st["extras"])), clauses=list(reversed(st["clauses"]))))
            try:
                t2 = str(Requirement(s2))
            except InvalidRequirement:
                return True, "reordered rendering rejected (reported by parts_recovered)"
            if t2 != t:
                return False, f"rendering depends on input order/whitespace: {t!r} vs {t2!r}"
            if st["extras"] and ("[" + ",".join(sorted(set(st["extras"]))) + "]") not in t:
                return False, f"extras not sorted in {t!r}"
            return True, ""
        if law == "eq_semantics":
            r = Requirement(s)
            # same requirement with the name in another PEP 503 spelling and clauses respelled
            alt_name = st["name"].upper().replace("-", "_").replace(".", "-") if rng.random() < 0.7 else st["name"]
            st2 = dict(st, name=alt_name)
            r2 = Requirement(render(rng, st2))
            same_name = canonicalize_name(alt_name) == canonicalize_name(st["name"])
            if same_name and not (r == r2 and hash(r) == hash(r2)):
                return False, f"{str(r)!r} vs {str(r2)!r}: names equal per PEP 503 but ==:{r == r2} hash-equal:{hash(r) == hash(r2)}"
            # trailing-zero respelling of one clause keeps equality and hash
            if st["clauses"]:
                c = st["clauses"][0]
                if not c.lstrip().startswith(("~=", "===")) and not c.rstrip().endswith(".*") and "+" not in c:
                    import re
                    m = re.match(r"^(\s*[<>=!]+\s*v?(?:[0-9]+!)?[0-9]+(?:\.[0-9]+)*)(.*)$", c, re.I)
                    if m:
                        c2 = m.group(1) + ".0" + m.group(2)
                        st3 = dict(st, clauses=[c2] + st["clauses"][1:])
                        r3 = Requirement(render(rng, st3))
                        if SpecifierSet(c) == SpecifierSet(c2) and not (r == r3 and hash(r) == hash(r3)):
                            return False, f"{str(r)!r} vs {str(r3)!r}: clause sets equal but ==:{r == r3} hash-equal:{hash(r) == hash(r3)}"
            return True, ""
        if law == "url_rules":
            # a URL and a version list are mutually exclusive; a marker directly after a URL is not a marker
            bad = st["name"] + " @ " + URLS[0] + " " + ">=1.0"
            try:
                Requirement(bad)
                return False, f"URL followed by a version clause accepted: {bad!r}"
            except InvalidRequirement:
                pass
            tight = st["name"] + " @ " + URLS[0] + ";os_name=='a'"
            try:
                r = Requirement(tight)
                if r.marker is not None:
                    return False, f"marker recognised without separating whitespace after URL: {tight!r}"
            except InvalidRequirement:
                pass
            ok = Requirement(st["name"] + " @ " + URLS[0] + " ;os_name=='a'")
            if ok.marker is None or ok.url != URLS[0]:
                return False, "marker after URL + whitespace not recognised"
            return True, ""
        raise KeyError(law)


PROP = C08()
