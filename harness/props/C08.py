"""C08 — Requirement parsing decomposes PEP 508 strings faithfully."""
from __future__ import annotations

import random
import re

import core
from gen import misc as GM
from gen import specifiers as GS
from gen import versions as GV
from run import Prop

URLS = ["https://example.com/pkg-1.0.whl", "file:///tmp/x", "git+https://h/r@v1#egg=x", "http://a/b?c=d&e=f", "svn+ssh://u@h/p;x"]


def W(rng, must=False):
    """optional whitespace (PEP 508 `wsp*`: space or tab)"""
    if must:
        return rng.choice([" ", "  ", "\t", " \t"])
    return rng.choice(["", "", " ", "  ", "\t"])


_OP = re.compile(r"^(===|~=|==|!=|<=|>=|<|>)")


def _op_ws(rng, c):
    """white space between the operator and the version (PEP 508: `version_cmp wsp* version`)"""
    m = _OP.match(c)
    return c if not m else m.group(1) + rng.choice([" ", "  ", "\t"]) + c[m.end():]


def req_struct(rng):
    name = rng.choice(GM.NAMES) if rng.random() < 0.6 else GM.pep508_name(rng)
    extras = rng.sample(["a", "B_c", "d.e", "f", "g-h", "x1"], rng.randrange(0, 4)) if rng.random() < 0.5 else []
    if extras and rng.random() < 0.4:
        extras[rng.randrange(len(extras))] = GM.pep508_name(rng)
    st = {"name": name, "extras": extras,
          "clauses": [], "paren": False, "url": None, "marker": None}
    if rng.random() < 0.2:
        st["url"] = rng.choice(URLS)
    else:
        near = GV.struct(rng)
        st["clauses"] = [GS.spell_clause(rng, GS.clause_struct(rng, near=near), ws=False) for _ in range(rng.randrange(0, 4))]
        st["clauses"] = [c for c in st["clauses"] if "," not in c and ";" not in c]
        st["clauses"] = [_op_ws(rng, c) if rng.random() < 0.2 else c for c in st["clauses"]]
        st["paren"] = bool(st["clauses"]) and rng.random() < 0.3
    if rng.random() < 0.5:
        st["marker"] = GM.marker(rng, 2)
    return st


def _join_clauses(rng, clauses, loose):
    """clauses joined by `wsp* ',' wsp*`; unless ``loose``, no white space directly after the comma that follows an
    `===` clause (that layout is known finding F05 and is exercised by parts_recovered only)"""
    out = ""
    for i, c in enumerate(clauses):
        if i:
            prev_arbitrary = clauses[i - 1].lstrip().startswith("===")
            out += (W(rng, must=True) if prev_arbitrary else W(rng)) + "," + W(rng)
        out += c
    return out


def render(rng, st, loose=False):
    """the PEP 508 string with random optional whitespace at every `wsp*` position"""
    s = W(rng) + st["name"] + W(rng)
    if st["extras"] or rng.random() < 0.1:
        s += "[" + W(rng) + (W(rng) + "," + W(rng)).join(st["extras"]) + W(rng) + "]" + W(rng)
    if st["url"] is not None:
        s += "@" + W(rng) + st["url"]
        if st["marker"] is not None:
            s += W(rng, must=True) + ";" + W(rng) + st["marker"] + W(rng)
        else:
            s += W(rng)
        return s
    cl = (W(rng) + "," + W(rng)).join(st["clauses"]) if loose else _join_clauses(rng, st["clauses"], loose)
    if st["paren"]:
        s += "(" + W(rng) + cl + W(rng) + ")"
    else:
        s += cl
    s += W(rng)
    if st["marker"] is not None:
        s += ";" + W(rng) + st["marker"] + W(rng)
    return s


# ---------------------------------------------------------------- correspondence helpers
# texts that run first on every check: the two known findings, and one text per branch of the parser that the random
# stream reaches only rarely
WITNESS_TEXTS = [
    "name ===1.0, >=2", "name ===1.0,>=2", "n==1.0,==1.0.0", "n==1.0.0,==1.0", "a-é", "a.", "a_", "-a", "a-b.c_d",
    "name@ https://x/y;os_name=='a'", "name@ https://x/y ;os_name=='a'", "name @ https://x/y ; os_name=='a'",
    "name @ https://x/y >=1", "name@https://x/y\n", "name @ u ", "name @", "name @ ;", "x>=1.0.*", "x>=1.0+local", "x>=1.0+Local",
    "x==1.0.*+local", "x~=1", "x~=1.0+a", "x===", "x=== a", "x===;os_name=='a'", "x (==1.0)", "x(==1.0", "x( ==1.0 , <2 ) ;os_name=='a'",
    "x()", "x ( )", "x[a,,b]", "x[a b]", "x[]", "x[ ]", "x[a,]", "x[A,a,A]", "x[a", "x >=1!x", "x>=1!2", "x >= 1.0a.", "x==1.0.post",
    "x ==1.0 , ===abc;os_name=='a'", "x>=1,", "x>=1,,<2", "x,>=1", "x>=1 <2", "x>=1;", "x;", " x ", "x\n", "x\n\n", "\tx\t[\ta\t]\t>=1\t;\tos_name=='a'\t",
    "x>=1 ; extra == 'Foo_Bar' or (os_name=='a' and extra=='X.y')", "x;os_name=='a'or os_name=='b'", "x>=1;python_version<'3'\n",
    "x==1.0-1", "x==1.0-", "x==1.0_dev.", "x==v1.0", "x==V1", "x!=1.*", "x==1.*.*", "x== 1.0 ,\t!= 2", "x=>1", "x=1", "x>1<2",
    "x===1.0)", "x (===1.0)", "x (===1.0,)", "x (===1.0 )", "x ===\xa0a", "x >=1.0\x1f", "x[a]@ u", "Foo.Bar-baz_qux>=1", "foo-bar.BAZ>=1",
]
NEW_RULES = ["LEFT_BRACKET", "RIGHT_BRACKET", "SEMICOLON", "COMMA", "AT", "URL", "IDENTIFIER", "SPECIFIER",
             "VERSION_PREFIX_TRAIL", "VERSION_LOCAL_LABEL_TRAIL", "LEFT_PARENTHESIS", "RIGHT_PARENTHESIS", "WS", "END"]
SPEC_CONTEXT = ["", "", " ", "a", "_", "(", ",", "]", "=", "==", "!", "!=", "~=", "<", ">", "é", "\t", "="]
SPEC_FOLLOW = ["", "", ",", ";", " ", ")", ".*", "+local", "+Local", "+", ".5", "a1", "-", "_dev", ".post", "!1", "!", ".", "*", "\n",
               ",>=2", " ,<3", ".*.*", "-1", "rc", "é", "\x1f", "\xa0x"]
IDENT_PIECES = ["a", "B", "0", "-", "_", ".", "ab", "a-b", "x1", "é", "١", " ", "[", "--", "._"]


def _encl(xs):
    xs = list(xs)
    return ",".join(core.enc(x) for x in xs) if xs else "_"


def real_parse(s):
    from packaging.requirements import InvalidRequirement, Requirement
    try:
        r = Requirement(s)
    except InvalidRequirement:
        return "err InvalidRequirement"
    except Exception as e:
        return "raw " + type(e).__name__
    return "ok " + "|".join([core.enc(r.name), _encl(sorted(r.extras)), _encl(sorted(str(x) for x in r.specifier)),
                             core.enc(r.url), core.enc(None if r.marker is None else str(r.marker))])


def real_str(s):
    from packaging.requirements import InvalidRequirement, Requirement
    try:
        r = Requirement(s)
    except InvalidRequirement:
        return "err InvalidRequirement"
    except Exception as e:
        return "raw " + type(e).__name__
    s1 = str(r)
    try:
        r2 = Requirement(s1)
    except InvalidRequirement:
        return f"ok {core.enc(s1)} err InvalidRequirement"
    except Exception as e:
        return f"ok {core.enc(s1)} raw {type(e).__name__}"
    return f"ok {core.enc(s1)} ok {core.enc(str(r2))} {core.encb(r2 == r)}{core.encb(hash(r2) == hash(r))}"


def real_eq(a, b):
    from packaging.requirements import InvalidRequirement, Requirement
    rs = []
    for t in (a, b):
        try:
            rs.append(Requirement(t))
        except InvalidRequirement:
            return "err InvalidRequirement"
        except Exception as e:
            return "raw " + type(e).__name__
    return core.encb(rs[0] == rs[1]) + core.encb(hash(rs[0]) == hash(rs[1]))


def real_match(rule, src, pos):
    from packaging import _tokenizer
    t = _tokenizer.Tokenizer(src, rules=_tokenizer.DEFAULT_RULES)
    t.position = pos
    if not t.check(rule):
        return "~"
    return str(len(t.next_token.text))


def real_marker(s, text):
    from packaging.markers import InvalidMarker, Marker
    from packaging.requirements import InvalidRequirement, Requirement
    try:
        r = Requirement(s)
    except InvalidRequirement:
        return "err InvalidRequirement"
    except Exception as e:
        return "raw " + type(e).__name__
    try:
        m = Marker(text)
    except InvalidMarker:
        return "err InvalidMarker"
    if r.marker is None:
        return "none"
    return "ok " + core.encb(str(r.marker) == str(m)) + core.encb(r.marker == m) + core.encb(hash(r.marker) == hash(m))


def vary(rng, st):
    """a structure that is equal to ``st`` as a requirement, or a near neighbour of it"""
    st2 = dict(st, extras=list(st["extras"]), clauses=list(st["clauses"]))
    k = rng.randrange(10)
    if k == 0:
        st2["name"] = st["name"].upper().replace("-", "_").replace(".", "-")
    elif k == 1:
        st2["name"] = st["name"].replace("-", "--").replace("_", "._").swapcase()
    elif k == 2:
        rng.shuffle(st2["extras"])
        st2["extras"] += st2["extras"][:1]
    elif k == 3 and st["extras"]:
        st2["extras"][0] = st2["extras"][0].swapcase()           # extras are compared as written
    elif k == 4:
        rng.shuffle(st2["clauses"])
        st2["clauses"] += st2["clauses"][:1]
    elif k == 5 and st["clauses"]:
        c = st["clauses"][0]
        m = re.match(r"^(\s*[<>=!~]+\s*v?(?:[0-9]+!)?[0-9]+(?:\.[0-9]+)*)(.*)$", c)
        if m:
            st2["clauses"][0] = m.group(1) + rng.choice([".0", ".00", ".1"]) + m.group(2)
    elif k == 6 and st["clauses"]:
        del st2["clauses"][rng.randrange(len(st2["clauses"]))]
    elif k == 7 and st["marker"]:
        st2["marker"] = st["marker"].replace("'", '"') if rng.random() < 0.5 else "(" + st["marker"] + ")"
    elif k == 8:
        st2["marker"] = None if st["marker"] else "os_name=='a'"
    elif k == 9 and st["url"]:
        st2["url"] = st["url"] + "x"
    return st2


def damage_req(rng, s):
    """token- and character-level damage to a requirement string"""
    k = rng.randrange(9)
    i = rng.randrange(len(s) + 1)
    if k == 8:
        return GV.confuse(rng, s)          # a letter/digit/separator replaced by a non-ASCII look-alike or case partner
    if k == 0:
        return s[:i] + rng.choice(GV.ODD_CHARS) + s[i:]
    if k == 1 and s:
        return s[:i] + s[i + 1:]
    if k == 2:
        return s[:i] + rng.choice(["[", "]", "(", ")", ",", ";", "@", " ", "\t", "\n", "===", ">=", ".*", "+x", "a", "-", "_", ".", "1", "!"]) + s[i:]
    if k == 3:
        toks = re.findall(r"\[|\]|\(|\)|,|;|@|'[^']*'|\"[^\"]*\"|[=~!<>]+|[\w.+*!-]+|\s+|.", s, flags=re.S)
        if len(toks) > 1:
            a, b = rng.randrange(len(toks)), rng.randrange(len(toks))
            toks[a], toks[b] = toks[b], toks[a]
            return "".join(toks)
    if k == 4:
        toks = re.findall(r"\s+|\S+", s)
        if toks:
            del toks[rng.randrange(len(toks))]
            return "".join(toks)
    if k == 5:
        return s + rng.choice(["\n", "\n\n", " \n", "\r\n", "\x00", ";", ",", ")", " x", "@ u"])
    if k == 6:
        return GM.marker(rng, 1) if rng.random() < 0.3 else s.replace(",", rng.choice([", ", " ,", ",,", ""]), 1)
    return s[i:] + s[:i]


def spec_probe(rng):
    """(source, position) for SPECIFIER: a clause (valid in some spelling, or malformed) in a context and with a continuation"""
    ctx = rng.choice(SPEC_CONTEXT)
    c = GS.malformed_clause(rng) if rng.random() < 0.3 else GS.spell_clause(rng, GS.clause_struct(rng), ws=rng.random() < 0.5).lstrip()
    if rng.random() < 0.2:
        c = _op_ws(rng, c)
    return ctx + c + rng.choice(SPEC_FOLLOW), len(ctx)


def token_probe(rng, s):
    """(rule, position) on a requirement string: mostly token starts, mostly the rule that could match there"""
    pos = rng.randrange(len(s) + 1)
    rule = rng.choice(NEW_RULES)
    if rng.random() < 0.7:
        c = s[pos:pos + 1]
        rule = {"[": "LEFT_BRACKET", "]": "RIGHT_BRACKET", ";": "SEMICOLON", ",": "COMMA", "@": "AT", "(": "LEFT_PARENTHESIS",
                ")": "RIGHT_PARENTHESIS", " ": "WS", "\t": "WS", "": "END", "\n": "END", "+": "VERSION_LOCAL_LABEL_TRAIL",
                ".": "VERSION_PREFIX_TRAIL"}.get(c, rule)
        if c in "=<>!~" and c:
            rule = "SPECIFIER"
        elif c.isalnum() and rng.random() < 0.7:
            rule = rng.choice(["IDENTIFIER", "IDENTIFIER", "URL"])
    return rule, pos


class C08(Prop):
    id = "C08"
    lean_modules = ["PkgProofs.Props.C08"]
    theorems = ["C08.str_roundtrip", "C08.str_idempotent", "C08.url_xor_spec", "C08.eq_is_pep503_and_spec_eq",
                "C08.eq_equivalence", "C08.hash_agrees", "C08.extras_as_set", "C08.marker_after_url_needs_ws",
                "C08.requirement_marker_eq_marker", "C08.parse_wf", "C08.parsed_roundtrip", "C08.requirement_roundtrip", "C08.parse_render", "C08.specifier_is_specifierset", "C08.Examples.lay_ok", "ReqLayout.parseSource_layout",
                "ReqLayout.check_clause", "ReqLayout.versionMany_layout", "ReqLayout.parseExtras_layout",
                "ReqLayout.parseReqMarker_text", "ReqLayout.mkSpecSet_raw", "C08.Examples.glued_semicolon", "C08.Examples.f05_rejected",
                "C08.Examples.f06_str_depends_on_order", "C08.Examples.specifier_rule_tied",
                "ReqClause.verForm_app", "ReqClause.stages_of_scanCore", "ReqClause.verForm_clause", "ReqClause.matchSpecifier_op",
                "ReqClause.tokExact_of_parse", "ReqClause.ver_chars_of_parse", "ReqClause.takeKw_pre_rest", "ReqWf.name_identOK",
                "ReqWf.parseExtras_idents", "ReqWf.members_roundtrip", "ReqWf.marker_wf", "ReqMk.fuel_enough", "ReqMk.marker_standalone", "ReqMk.parseMarker_sim",
                "ReqRound.parse_str", "ReqRound.reparsed_props", "ReqRound.mkSpecSet_specStr", "ReqRound.str_eq_render",
                "ReqParse.parseSource_render", "ReqParse.versionMany_canon", "ReqParse.parseReqMarker_canon",
                "ReqLex.checkR_ident", "ReqLex.checkR_url", "ReqLex.matchSpecifier_arb"]
    generated = ["MarkerTok", "ReqTok"]
    rule = ("requirement structures (name, extras, clause list in any spelling incl. white space after the operator, "
            "parenthesised or not, URL, marker) rendered with random optional whitespace at every wsp* position of the "
            "PEP 508 grammar; str() of parsed requirements; pairs of equal / neighbouring structures; token- and "
            "character-level damage; direct tokenizer probes of every requirement rule (SPECIFIER in every look-behind "
            "context and before every kind of continuation); non-trivial = accepted by Requirement / rule matched")
    trusted = ["hash() as an uninterpreted function of Req.hashKey (canonical name, the two frozensets as sorted key lists, "
               "url, the marker's hash key)",
               "the body of every SPECIFIER alternative is mirrored by the hand-written prefix scanner Req.verForm; the "
               "translator re-checks on every run that the rule still has the shape the scanner mirrors (operators, guards, "
               "keyword lists and repetition bounds are data) and that it is literally the body of Specifier._regex (C12)"]
    partial = ["parse_render is proved for every layout except the class of finding F05 (Layout.OK asks for white space between "
               "an === clause and a comma after it, and a non-empty === text); layouts use the PEP 508 wsp (space, tab): the "
               "further ASCII white space the SPECIFIER rule tolerates after an operator (newline, form feed ...) and a final "
               "newline before END are covered by the correspondence only",
               "requirement_roundtrip assumes the marker's literals are PEP 508 strings (C09.LitOK: no backslash, CR, LF, NUL, "
               "surrogate; not both quote characters) — the same condition as C09.constructed_marker_roundtrip",
               "the bodies of the SPECIFIER alternatives are mirrored by the hand-written prefix scanner Req.verForm and tied by "
               "correspondence (operators, look-behind guards, keyword lists and repetition bounds are regenerated data; the "
               "translator re-checks the shape on every run)",
               "canonicalize_name on non-ASCII names is the model of C13 (context-dependent final sigma not modelled); "
               "requirement names are ASCII by the IDENTIFIER rule, only extra-literals in markers can be non-ASCII"]
    budget = {"quick": (3000, 4000), "thorough": (60000, 120000)}

    # ---- correspondence
    def gen_cases(self, rng, n):
        for t in WITNESS_TEXTS:
            yield ("req.parse", [core.enc(t)])
            yield ("req.str", [core.enc(t)])
        k = 0
        while k < n:
            k += 1
            r = rng.random()
            st = req_struct(rng)
            s = render(rng, st, loose=rng.random() < 0.3)
            if rng.random() < 0.15:
                s = damage_req(rng, s)
                if rng.random() < 0.3:
                    s = damage_req(rng, s)
            if r < 0.40:
                yield ("req.parse", [core.enc(s)])
            elif r < 0.58:
                yield ("req.str", [core.enc(s)])
            elif r < 0.73:
                t = render(rng, vary(rng, st), loose=rng.random() < 0.2)
                if rng.random() < 0.1:
                    t = damage_req(rng, t)
                yield ("req.eq", [core.enc(s), core.enc(t)])
            elif r < 0.80:
                # the marker part against the stand-alone marker parser on the same text
                text = st["marker"] if st["marker"] is not None else GM.marker(rng, 2)
                if rng.random() < 0.15:
                    text = damage_req(rng, text)
                st2 = dict(st, marker=text)
                yield ("req.marker", [core.enc(render(rng, st2)), core.enc(text)])
            elif r < 0.90:
                src, pos = spec_probe(rng)
                yield ("req.match", ["SPECIFIER", core.enc(src), str(pos)])
            elif r < 0.93:
                src = "".join(rng.choice(IDENT_PIECES) for _ in range(rng.randrange(1, 6)))
                yield ("req.match", ["IDENTIFIER", core.enc(src), str(rng.randrange(len(src) + 1))])
            else:
                rule, pos = token_probe(rng, s)
                yield ("req.match", [rule, core.enc(s), str(pos)])

    def real(self, op, args):
        if op == "req.parse":
            return real_parse(core.dec(args[0]))
        if op == "req.str":
            return real_str(core.dec(args[0]))
        if op == "req.eq":
            return real_eq(core.dec(args[0]), core.dec(args[1]))
        if op == "req.match":
            return real_match(args[0], core.dec(args[1]), int(args[2]))
        if op == "req.marker":
            return real_marker(core.dec(args[0]), core.dec(args[1]))
        raise KeyError(op)

    def nontrivial(self, op, args, out):
        return out.startswith("ok") or (op == "req.eq" and out[:1] in "01") or (op == "req.match" and out != "~")

    def branch(self, op, args, out):
        if op == "req.match":
            return "match:" + args[0] + ":" + ("hit" if out != "~" else "miss")
        if op == "req.parse" and out.startswith("ok"):
            f = out[3:].split("|")
            s = core.dec(args[0])
            feats = ("E" if f[1] != "_" else "") + ("C%d" % min(3, f[2].count(",") + 1) if f[2] != "_" else "") + \
                    ("U" if f[3] != "~" else "") + ("M" if f[4] != "~" else "") + ("P" if "(" in s.split(";")[0] else "") + \
                    ("A" if "===" in s.split(";")[0] else "")
            return "parse:ok:" + feats
        if op == "req.str" and out.startswith("ok"):
            return "str:" + " ".join(out.split(" ")[2:3]) + ":" + out[-2:]
        return op[4:] + ":" + out[:24]

    def judge(self, op, args, real, model, driver):
        if op in ("req.parse", "req.str"):
            return ("text_roundtrip", {"s": core.dec(args[0])})
        if op == "req.eq":
            return ("eq_hash_texts", {"a": core.dec(args[0]), "b": core.dec(args[1])})
        if op == "req.marker":
            return ("marker_texts", {"s": core.dec(args[0]), "marker": core.dec(args[1])})
        return None

    def gen_laws(self, rng, n):
        for i in range(n):
            st = req_struct(rng)
            k = i % 10
            if k < 5:
                yield ("parts_recovered", {"st": st, "seed": rng.randrange(1 << 30)})
            elif k < 8:
                yield ("str_roundtrip", {"st": st, "seed": rng.randrange(1 << 30)})
            elif k < 9:
                yield ("eq_semantics", {"st": st, "seed": rng.randrange(1 << 30)})
            else:
                yield ("url_rules", {"st": st, "seed": rng.randrange(1 << 30)})

    def check_law(self, law, inp):
        from packaging.markers import Marker
        from packaging.requirements import InvalidRequirement, Requirement
        from packaging.specifiers import SpecifierSet
        from packaging.utils import canonicalize_name
        if law in ("text_roundtrip", "eq_hash_texts", "marker_texts"):
            return text_law(law, inp)
        st = inp["st"]
        rng = random.Random(inp["seed"])
        if not st["name"] or not isinstance(st["clauses"], list):
            raise ValueError("bad structure")
        import re as _re
        ident = _re.compile(r"^[A-Za-z0-9]([A-Za-z0-9._-]*[A-Za-z0-9])?$")
        if not ident.match(st["name"]) or not all(isinstance(e, str) and ident.match(e) for e in st["extras"]):
            raise ValueError("bad identifier")
        from packaging.specifiers import Specifier
        for c in st["clauses"]:
            Specifier(c)                      # outside the law's domain unless every clause is a valid clause
        if st["url"] is not None and (not st["url"] or any(ch in st["url"] for ch in " \t")):
            raise ValueError("bad url")
        if st["marker"] is not None:
            Marker(st["marker"])
        s = render(rng, st, loose=(law == "parts_recovered"))
        if law != "parts_recovered":
            try:
                Requirement(s)
            except InvalidRequirement:
                return True, "rejected (reported by parts_recovered)"
        if law == "parts_recovered":
            # what earlier callers did with the requirements *they* parsed (they own them: extras is a set, the other parts are
            # assignable) must not show in this one
            for prior in ("zzz", "zzz>=1; os_name=='a'", "zzz[e] @ https://u.example/x", "zzz[]", s):
                try:
                    q = Requirement(prior)
                except InvalidRequirement:
                    continue
                q.extras.add("scribble")
                q.specifier.prereleases = True
                q.marker, q.url, q.name = None, "https://scribble.example/", "scribble"
            try:
                r = Requirement(s)
            except InvalidRequirement as e:
                return False, f"PEP 508 string rejected: {s!r}: {str(e).splitlines()[0]}"
            if r.name != st["name"]:
                return False, f"{s!r}: name {r.name!r} != {st['name']!r}"
            if r.extras != set(st["extras"]):
                return False, f"{s!r}: extras {r.extras!r} != {set(st['extras'])!r}"
            want = SpecifierSet(",".join(st["clauses"]))
            if r.specifier != want or len(r.specifier) != len(want):
                return False, f"{s!r}: specifier {str(r.specifier)!r} != {str(want)!r}"
            if r.url != st["url"]:
                return False, f"{s!r}: url {r.url!r} != {st['url']!r}"
            if st["marker"] is None:
                if r.marker is not None:
                    return False, f"{s!r}: marker invented: {r.marker}"
            else:
                m = Marker(st["marker"])
                if r.marker != m or str(r.marker) != str(m) or hash(r.marker) != hash(m):
                    return False, f"{s!r}: marker {str(r.marker)!r} != Marker(text) {str(m)!r}"
            return True, ""
        if law == "str_roundtrip":
            r = Requirement(s)
            t = str(r)
            try:
                r2 = Requirement(t)
            except InvalidRequirement as e:
                return False, f"str(Requirement({s!r})) = {t!r} does not parse: {str(e).splitlines()[0]}"
            if str(r2) != t:
                return False, f"str not idempotent: {t!r} -> {str(r2)!r}"
            if not (r2 == r) or hash(r2) != hash(r):
                return False, f"re-parsed requirement differs (==: {r2 == r}, hash equal: {hash(r2) == hash(r)}) for {t!r}"
            # deterministic rendering: sorted extras, sorted clauses, '@ url', '; marker'
            s2 = render(random.Random(inp["seed"] + 1), dict(st, extras=list(reversed(st["extras"])), clauses=list(reversed(st["clauses"]))))
            try:
                t2 = str(Requirement(s2))
            except InvalidRequirement:
                return True, "reordered rendering rejected (reported by parts_recovered)"
            if t2 != t:
                return False, f"rendering depends on input order/whitespace: {t!r} vs {t2!r}"
            if st["extras"] and ("[" + ",".join(sorted(set(st["extras"]))) + "]") not in t:
                return False, f"extras not sorted in {t!r}"
            return True, ""
        if law == "eq_semantics":
            r = Requirement(s)
            # same requirement with the name in another PEP 503 spelling and clauses respelled
            alt_name = st["name"].upper().replace("-", "_").replace(".", "-") if rng.random() < 0.7 else st["name"]
            st2 = dict(st, name=alt_name)
            r2 = Requirement(render(rng, st2))
            same_name = canonicalize_name(alt_name) == canonicalize_name(st["name"])
            if same_name and not (r == r2 and hash(r) == hash(r2)):
                return False, f"{str(r)!r} vs {str(r2)!r}: names equal per PEP 503 but ==:{r == r2} hash-equal:{hash(r) == hash(r2)}"
            # trailing-zero respelling of one clause keeps equality and hash
            if st["clauses"]:
                c = st["clauses"][0]
                if not c.lstrip().startswith(("~=", "===")) and not c.rstrip().endswith(".*") and "+" not in c:
                    import re
                    m = re.match(r"^(\s*[<>=!]+\s*v?(?:[0-9]+!)?[0-9]+(?:\.[0-9]+)*)(.*)$", c, re.I)
                    if m:
                        c2 = m.group(1) + ".0" + m.group(2)
                        st3 = dict(st, clauses=[c2] + st["clauses"][1:])
                        r3 = Requirement(render(rng, st3))
                        if SpecifierSet(c) == SpecifierSet(c2) and not (r == r3 and hash(r) == hash(r3)):
                            return False, f"{str(r)!r} vs {str(r3)!r}: clause sets equal but ==:{r == r3} hash-equal:{hash(r) == hash(r3)}"
            return True, ""
        if law == "url_rules":
            # a URL and a version list are mutually exclusive; a marker directly after a URL is not a marker
            bad = st["name"] + " @ " + URLS[0] + " " + ">=1.0"
            try:
                Requirement(bad)
                return False, f"URL followed by a version clause accepted: {bad!r}"
            except InvalidRequirement:
                pass
            tight = st["name"] + " @ " + URLS[0] + ";os_name=='a'"
            try:
                r = Requirement(tight)
                if r.marker is not None:
                    return False, f"marker recognised without separating whitespace after URL: {tight!r}"
            except InvalidRequirement:
                pass
            ok = Requirement(st["name"] + " @ " + URLS[0] + " ;os_name=='a'")
            if ok.marker is None or ok.url != URLS[0]:
                return False, "marker after URL + whitespace not recognised"
            return True, ""
        raise KeyError(law)



def text_law(law, inp):
    """the statement's round-trip / equality parts for given texts (what a model/implementation disagreement is judged by)"""
    from packaging.markers import InvalidMarker, Marker
    from packaging.requirements import InvalidRequirement, Requirement
    for v in inp.values():
        if not isinstance(v, str):
            raise TypeError("text")
    if law == "text_roundtrip":
        s = inp["s"]
        try:
            r = Requirement(s)
        except InvalidRequirement:
            return True, "rejected"
        t = str(r)
        try:
            r2 = Requirement(t)
        except InvalidRequirement as e:
            return False, f"str(Requirement({s!r})) = {t!r} does not parse: {str(e).splitlines()[0]}"
        if str(r2) != t:
            return False, f"str not idempotent: {t!r} -> {str(r2)!r}"
        if not (r2 == r) or hash(r2) != hash(r):
            return False, f"re-parsed requirement differs (==: {r2 == r}, hash equal: {hash(r2) == hash(r)}) for {t!r}"
        if r.url is not None and len(r.specifier) != 0:
            return False, f"Requirement({s!r}) has both a URL and version clauses"
        return True, ""
    if law == "eq_hash_texts":
        try:
            a, b = Requirement(inp["a"]), Requirement(inp["b"])
        except InvalidRequirement:
            return True, "rejected"
        if a == b and hash(a) != hash(b):
            return False, f"Requirement({inp['a']!r}) == Requirement({inp['b']!r}) but their hashes differ"
        if (a == b) != (b == a):
            return False, "== is not symmetric"
        return True, ""
    if law == "marker_texts":
        try:
            r = Requirement(inp["s"])
            m = Marker(inp["marker"])
        except (InvalidRequirement, InvalidMarker):
            return True, "rejected"
        if r.marker is None or not inp["s"].rstrip(" \t\n").endswith(inp["marker"].rstrip(" \t\n")):
            raise ValueError("the requirement text does not end with the marker text")
        if not (r.marker == m and str(r.marker) == str(m) and hash(r.marker) == hash(m)):
            return False, f"Requirement({inp['s']!r}).marker = {str(r.marker)!r} but Marker({inp['marker']!r}) = {str(m)!r}"
        return True, ""
    raise KeyError(law)


from srccall import with_src  # noqa: E402

# translated source: the requirement grammar's recursive-descent functions (_parser.py, over the shared Tokenizer) are proved
# to agree with the model's parser (Req.versionMany / parseSpecifier / parseExtras… / parseRequirement / parseSource)
_REQ_FUNCS = ["_parse_version_many", "_parse_specifier", "_parse_extras_list", "_parse_extras", "_parse_requirement_marker",
              "_parse_requirement_details", "_parse_requirement", "parse_requirement"]
PROP = with_src(C08(), share=10, functions=_REQ_FUNCS,
                module=["PkgProofs.Props.Src.ReqParse", "PkgProofs.Props.Src.ReqFuel", "PkgProofs.Props.Src.ReqParseMain"],
                theorems=["Src." + f + "_translated" for f in _REQ_FUNCS] + [
                    "Src._parse_version_many_agrees", "Src._parse_specifier_agrees", "Src._parse_extras_list_agrees",
                    "Src._parse_extras_agrees", "Src._parse_requirement_marker_agrees", "Src._parse_requirement_details_agrees",
                    "Src._parse_requirement_eq_model", "Src.parse_requirement_eq_model", "Src.markerParserAgrees",
                    "Src._parse_requirement_marker_agrees'", "Src.parse_requirement_eq_model'", "Src._parse_marker_agrees",
                    "Src.parseSource_ne_fuel", "Src.parse_requirement_eq_parseSource"])
# x5: the Requirement class itself — `__init__` (parse, extras set, SpecifierSet, marker normalisation), `_iter_parts` /
# `__str__`, `__hash__` — regenerated from requirements.py and proved equal to Req.parse / Req.str (the frozenset of clauses is
# iterated in an order that is a parameter: Src.Ordered)
PROP = with_src(PROP, share=10,
                functions=["Requirement.__init__", "Requirement._iter_parts", "Requirement.__str__", "Requirement.__hash__",
                           "Requirement.__eq__"],
                module=["PkgProofs.Props.Src.ReqStr", "PkgProofs.Props.Src.ReqEq"],
                theorems=["Src.reqstr_translated", "Src.reqeq_translated", "Src.Requirement._iter_parts_eq_model",
                          "Src.Requirement.__str___eq_model", "Src.Requirement.__str___of_parse",
                          "Src.Requirement.__hash___eq_model", "Src.Requirement.__init___eq_model",
                          "Src.Requirement.__init___eq_model'", "Src.Requirement.__eq___eq_model", "Src.Requirement.__eq___parsed",
                          "Src.Requirement.__eq___other", "Src.ofParsed_wf"])

# x9: the methods of the tokenizer all three grammars run on (`check/read/expect/consume/raise_syntax_error`, `enclosing_tokens` cut at
# its `yield`) are translated from `_tokenizer.py` and proved equal to the primitives of PkgModel/PyTok.lean that the translated parser
# functions call — the digest guard on the class is gone, an edit of a method is a failed proof obligation here
from srccall import X9_TOK_FUNCS, X9_TOK_THEOREMS, X9_TOK_MODULE  # noqa: E402
PROP = with_src(PROP, share=10, functions=X9_TOK_FUNCS, module=[X9_TOK_MODULE], theorems=X9_TOK_THEOREMS)

# history-insensitivity on shared objects (harness/histlaw.py): programs over Specifier / SpecifierSet / Requirement / Marker
# objects; extra read-only calls and work on unrelated objects built from the same texts must not change any answer
import histlaw  # noqa: E402
PROP = histlaw.attach(PROP, every=25)
