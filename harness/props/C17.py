"""C17 — Metadata validation accepts exactly field-valid, version-consistent metadata."""
from __future__ import annotations

import copy
import json
import random

import core
from gen import metadata as G
from run import Prop


def _M():
    from packaging import metadata
    return metadata


# --------------------------------------------------------------------------- decoding protocol arguments
def dec_val(s):
    t, r = s[0], s[1:]
    if t == "n":
        return None
    if t == "s":
        return core.dec(r)
    if t == "l":
        return [core.dec(a) for a in r.split(",")] if r else []
    if t == "d":
        return dict((core.dec(k), core.dec(v)) for k, v in (e.split("=") for e in r.split(","))) if r else {}
    raise ValueError(s)


def dec_dict(s):
    if s in ("_", ""):
        return {}
    return dict((core.dec(k), dec_val(v)) for k, v in (e.split(">", 1) for e in s.split(";")))


def dec_atoms(s):
    return [] if s in ("_", "") else [core.dec(a) for a in s.split(",")]


# --------------------------------------------------------------------------- running the real code
def iteration_order(data):
    """the order in which from_raw's loop visits `fields_to_check`: the same frozenset built by the same steps"""
    M = _M()
    raw = data.copy()
    mv = raw.get("metadata_version")
    if isinstance(mv, str) and mv in M._VALID_METADATA_VERSIONS:
        del raw["metadata_version"]          # a successful read removes it from _raw
    fs = frozenset(raw) | M._REQUIRED_ATTRS
    fs -= {"metadata_version"}
    return sorted(fs, key=str)       # the loop visits them sorted (so that the order of the reported errors is reproducible)


def _enriched_type_problem(k, v):
    """the enriched attribute must be *what the component parser returns* for the raw value — same type, not merely
    something that compares or prints alike (a raw str equals a SpecifierSet through SpecifierSet.__eq__'s coercion)"""
    from packaging.requirements import Requirement
    from packaging.specifiers import SpecifierSet
    from packaging.version import Version
    if v is None:
        return None
    want = {"version": Version, "requires_python": SpecifierSet}.get(k)
    if want is not None and type(v) is not want:
        return f"enriched value is a {type(v).__name__}, the component parser returns a {want.__name__}"
    if k == "requires_dist" and not (isinstance(v, list) and all(type(r) is Requirement for r in v)):
        return "enriched value is not a list of Requirement objects"
    if k in ("name", "summary", "metadata_version", "description_content_type", "license_expression") and not isinstance(v, str):
        return f"enriched value is a {type(v).__name__}, expected str"
    if k in ("dynamic", "provides_extra", "license_files") and not (isinstance(v, list) and all(isinstance(x, str) for x in v)):
        return "enriched value is not a list of str"
    return None


def canon(v):
    if v is None or isinstance(v, (str, dict)):
        return G.enc_val(v)
    if isinstance(v, (list, tuple)):
        return G.enc_val([str(x) for x in v])
    return G.enc_val(str(v))


def observe(make, data_for_mutation_check, reads):
    """protocol form of: construction outcome, then the reads, then the instance state"""
    M = _M()
    before = copy.deepcopy(data_for_mutation_check)
    mutated = lambda: "" if _same(before, data_for_mutation_check) else " !MUTATED"
    try:
        m = make()
    except M.ExceptionGroup as g:
        if not all(type(e) is M.InvalidMetadata for e in g.exceptions):
            return "raw ExceptionGroup[" + ",".join(sorted({type(e).__name__ for e in g.exceptions})) + "]" + mutated()
        return "err ExceptionGroup " + (",".join(core.enc(e.field) for e in g.exceptions)) + mutated()    # in the order raised
    except Exception as e:
        return "raw " + type(e).__name__ + mutated()
    rs = []
    for f in reads:
        try:
            v = getattr(m, f)
            rs.append("v" + canon(v if f in G.SPEC_FIELDS else None))     # non-field attributes: only that they resolve
        except M.InvalidMetadata as e:
            rs.append("e" + core.enc(e.field))
        except Exception as e:
            rs.append("x" + core.enc(type(e).__name__))
    rawkeys = sorted(m._raw)
    cache = sorted(k for k in vars(m) if k != "_raw")
    return ("ok " + ";".join(rs) + "|" + ",".join(core.enc(k) for k in rawkeys) + "|"
            + ",".join(core.enc(k) for k in cache) + mutated())


def _same(a, b):
    if type(a) is not type(b):
        return False
    if isinstance(a, dict):
        return list(a.keys()) == list(b.keys()) and all(_same(a[k], b[k]) for k in a)
    if isinstance(a, list):
        return len(a) == len(b) and all(_same(x, y) for x, y in zip(a, b))
    return a == b


# --------------------------------------------------------------------------- the statement, computed independently
def field_valid(key, v):
    """is a present value individually valid?  Component parsers are called directly; the rules that
    metadata.py itself owns are written from the core metadata specification."""
    from packaging import licenses, requirements, specifiers, utils, version
    if key in ("name", "version") and v is None:
        return False
    if v is None:
        return True
    try:
        if key == "name":
            if not v:
                return False
            utils.canonicalize_name(v, validate=True)
        elif key == "version":
            if not v:
                return False
            version.Version(v)
        elif key == "summary":
            return "\n" not in v
        elif key == "description_content_type":
            return CT_EXPECT[v]
        elif key == "dynamic":
            return all(d.lower() in G.HEADER_TO_KEY and d.lower() not in ("name", "version", "metadata-version") for d in v)
        elif key == "provides_extra":
            for x in v:
                utils.canonicalize_name(x, validate=True)
        elif key == "requires_python":
            specifiers.SpecifierSet(v)
        elif key == "requires_dist":
            for x in v:
                requirements.Requirement(x)
        elif key == "license_expression":
            licenses.canonicalize_license_expression(v)
        elif key == "license_files":
            return all(LF_EXPECT[p] for p in v)
    except Exception:
        # the documented exception: invalid.  Anything else a component raises also makes the value an offender
        # (from_raw must then still answer with an ExceptionGroup).
        return False
    return True


def enriched(key, v):
    """what the component parser returns for a valid raw value, in canonical form"""
    from packaging import licenses, requirements, specifiers, utils, version
    if v is None:
        return canon(None)
    if key == "version":
        return canon(version.Version(v))
    if key == "dynamic":
        return canon([d.lower() for d in v])
    if key == "provides_extra":
        return canon([utils.canonicalize_name(x) for x in v])
    if key == "requires_python":
        return canon(specifiers.SpecifierSet(v))
    if key == "requires_dist":
        return canon([requirements.Requirement(x) for x in v])
    if key == "license_expression":
        return canon(licenses.canonicalize_license_expression(v))
    return canon(v)


# clear-cut content types and licence-file paths with the verdict the specification gives them
CT_EXPECT = {
    "text/plain": True, "text/x-rst": True, "text/markdown": True, "text/markdown; variant=GFM": True,
    "text/markdown; variant=CommonMark": True, "text/plain; charset=UTF-8": True,
    "text/markdown; charset=UTF-8; variant=GFM": True, "text/html": False, "text/plain; charset=ascii": False,
    "text/markdown; variant=gh": False, "application/json": False, "garbage": False, "": False,
    "text/x-rst; charset=latin1": False, "text/plainx": False, "text/plain\nfoo": False, "text/x-rst\r; variant=a": False,
}
LF_EXPECT = {"LICENSE": True, "licenses/MIT.txt": True, "a/b/c": True, "NOTICE": True, "../x": False, "*.txt": False,
             "/abs": False, "C:\\x": False, "a\\b": False, "a/../b": False, "x*": False,
             "C:/licenses/LICENSE": False, "c:/LICENSE": False, "//server/share/LICENSE": False}
LAW_POOLS = dict(G.POOLS)
LAW_POOLS["description_content_type"] = ([k for k, v in CT_EXPECT.items() if v], [k for k, v in CT_EXPECT.items() if not v], [])
LAW_POOLS["license_files"] = ([["LICENSE", "licenses/MIT.txt"], [], ["a/b/c"], ["NOTICE"]],
                              [["../x"], ["*.txt"], ["/abs"], ["C:\\x"], ["a\\b"], ["LICENSE", "a/../b"], ["x*"],
                               ["C:/licenses/LICENSE"], ["LICENSE", "c:/LICENSE"], ["//server/share/LICENSE"]], [])
LAW_POOLS["dynamic"] = ([d for d in G.POOLS["dynamic"][0]], [d for d in G.POOLS["dynamic"][1] if d != ["İ"]], [])


def expected_offenders(data):
    """the set of field names the ExceptionGroup must name (empty = must succeed), from the statement"""
    off = set()
    mv = data.get("metadata_version")
    mv_ok = isinstance(mv, str) and mv in G.SPEC_VERSIONS
    if not mv_ok:
        off.add("metadata-version")
    for key in (set(data) | {"name", "version"}) - {"metadata_version"}:
        if key not in G.SPEC_FIELDS:
            off.add(key)
        elif mv_ok and G.age(G.SPEC_FIELDS[key][2]) > G.age(mv):
            off.add(G.email_name(key))
        elif not field_valid(key, data.get(key)):
            off.add(G.email_name(key))
    return off


def law_dict(rng):
    """like G.raw_dict but over the clear-cut pools"""
    saved = G.POOLS
    G.POOLS = LAW_POOLS
    try:
        return G.raw_dict(rng)
    finally:
        G.POOLS = saved


class C17(Prop):
    id = "C17"
    lean_modules = ["PkgProofs.Props.C17"]
    generated = ["MetadataTables"]
    theorems = [
        "C17.gating_table", "C17.versions_table", "C17.tables_consistent", "C17.conv_ok_iff_valid", "C17.fromRaw_kind",
        "C17.from_raw_ok_iff", "C17.errors_are_exactly_offenders", "C17.never_raises_if_components_clean",
        "C17.raises_only_from_components", "C17.conv_escape_from_component", "C17.typed_clean_no_escape",
        "C17.reads_history_independent", "C17.reads_keep_invariant", "C17.absent_optional_none", "C17.lazy_same_errors",
        "C17.lazy_error_in_group", "C17.enriched_version", "C17.enriched_requires_python",
        "C17.enriched_license_expression", "C17.from_email_spec",
    ]
    rule = ("RawMetadata dicts over all 30 fields: per-field pools of valid / invalid / exception-escaping values, every "
            "valid metadata version plus invalid and absent ones, unknown keys (incl. names of class attributes), None values; "
            "'all-valid' dicts with exactly one deviation (field one version too new, one invalid value, unknown key, missing "
            "required, None); validate on/off; random read sequences with repeats; from_email on generated documents. "
            "non-trivial = construction succeeds or raises an ExceptionGroup")
    trusted = ["component parsers and standard library (canonicalize_name, Version, SpecifierSet, Requirement, "
               "canonicalize_license_expression, email.message content-type parsing, str.lower, pathlib) enter the model as an "
               "oracle tabulated per case by the harness; all theorems hold for every oracle",
               "iteration order of the frozenset fields_to_check: a parameter of the model (theorems quantify over every "
               "permutation); the harness passes the order the interpreter uses"]
    partial = [
        "'never modifies the caller's raw dict': a functional model cannot express aliasing; that from_raw works on a copy is "
        "checked by the correspondence (deep comparison before/after every case) and by the laws, not proved",
        "'enriched attributes equal what the component parsers return' is by construction of the oracle (the harness "
        "tabulates the component's answer); proved only as: the attribute is the oracle's canonical form (enriched_*)",
        "from_email names only the unparsed keys when there are any (known finding); from_email_spec states that behaviour",
        "RawMetadata values of the wrong type (e.g. a str where a list is declared) are outside the correspondence; the "
        "model answers TypeError for them and the theorems that need typing say so (typedOk)",
    ]
    budget = {"quick": (2500, 1500), "thorough": (40000, 30000)}

    # ---- correspondence
    def gen_cases(self, rng, n):
        for i in range(n):
            if rng.random() < 0.04:
                data, _ = G.raw_dict(rng)
                yield ("meta.fields", [G.enc_dict(data)])
                continue
            if rng.random() < 0.8:
                data, plan = G.raw_dict(rng)
                validate = rng.random() < 0.7
                reads = G.read_seq(rng, data)
                yield ("meta.run", [G.oracle_table(data), G.enc_atoms(iteration_order(data)), core.encb(validate),
                                    G.enc_dict(data), G.enc_atoms(reads)])
            else:
                if rng.random() < 0.45:
                    data, _ = G.raw_dict(rng)          # often completely valid: from_email succeeds
                    doc = G.doc_from_raw(rng, data)
                else:
                    doc = G.document(rng, wellformed=rng.random() < 0.7)
                validate = rng.random() < 0.75
                args = self._email_args(doc, validate, None, rng)
                if args is not None:
                    yield ("meta.email", args)

    def _email_args(self, doc, validate, reads, rng):
        M = _M()
        text = G.build_doc(doc)
        try:
            order, hdrs, payload = G.extract_doc(text)
        except Exception:
            return None
        try:
            raw, _ = M.parse_email(text)
        except Exception:
            raw = {}
        if reads is None:
            reads = G.read_seq(rng, raw)
        return [core.enc(json.dumps(doc)), G.oracle_table(raw), G.enc_atoms(iteration_order(raw)), order,
                core.encb(validate), hdrs, payload, G.enc_atoms(reads)]

    def real(self, op, args):
        M = _M()
        if op == "meta.run":
            tab, ks, val, data, reads = args
            data = dec_dict(data)
            if G.oracle_table(data) != tab or G.enc_atoms(iteration_order(data)) != ks:
                raise RuntimeError("stale oracle/order for this dict")
            return observe(lambda: M.Metadata.from_raw(data, validate=val == "1"), data, dec_atoms(reads))
        if op == "meta.fields":
            data = dec_dict(args[0])
            return G.enc_atoms(sorted((frozenset(data) | M._REQUIRED_ATTRS) - {"metadata_version"})).replace("_", "")
        if op == "meta.email":
            doc = json.loads(core.dec(args[0]))
            val, reads = args[4], dec_atoms(args[7])
            fresh = self._email_args(doc, val == "1", reads, None)
            if fresh != list(args):
                raise RuntimeError("stale extraction for this document")
            text = G.build_doc(doc)
            out = observe(lambda: M.Metadata.from_email(text, validate=val == "1"), text, reads)
            if out.startswith("err ExceptionGroup ") and M.parse_email(text)[1]:
                # the group of unparsed keys: their order is the insertion order of a dict, which the model (an
                # association list used as a map) does not track; compared as a sorted list
                head = out.split(" ")
                head[2] = ",".join(sorted(head[2].split(","), key=lambda a: [int(c, 16) for c in a.split(".")] if a != "-" else []))
                out = " ".join(head)
            return out
        raise KeyError(op)

    def nontrivial(self, op, args, out):
        return out.startswith("ok") or out.startswith("err") or op == "meta.fields"

    def branch(self, op, args, out):
        if op == "meta.fields":
            return "meta.fields"
        head = out.split(" ", 2)
        val = args[2] if op == "meta.run" else args[4]
        lab = op + (":validate" if val == "1" else ":lazy") + ":" + " ".join(head[:2] if head[0] != "ok" else head[:1])
        if head[0] == "err":
            n = len(head[2].split(",")) if len(head) > 2 and head[2] else 0
            lab += f":{min(n, 4)}{'+' if n >= 4 else ''}"
            if op == "meta.run":
                # why: M = version missing/invalid, U = unknown key, G = field newer than the version, V = invalid value
                data = dec_dict(args[3])
                mv = data.get("metadata_version")
                mv_ok = isinstance(mv, str) and mv in G.SPEC_VERSIONS
                why = "" if mv_ok else "M"
                if any(k not in G.SPEC_FIELDS for k in data):
                    why += "U"
                if mv_ok and any(k in G.SPEC_FIELDS and G.age(G.SPEC_FIELDS[k][2]) > G.age(mv) for k in data):
                    why += "G"
                names = set(dec_atoms(head[2])) if len(head) > 2 else set()
                if any(k in G.SPEC_FIELDS and G.email_name(k) in names and k != "metadata_version"
                       and not (mv_ok and G.age(G.SPEC_FIELDS[k][2]) > G.age(mv)) for k in list(data) + ["name", "version"]):
                    why += "V"
                lab += ":" + why
        if head[0] == "ok":
            body = out[3:].split("|")[0]
            kinds = {r[0] for r in body.split(";") if r}
            lab += ":reads=" + "".join(sorted(kinds))
        return lab

    def judge(self, op, args, real, model, driver):
        if op == "meta.run":
            data = dec_dict(args[3])
            try:
                _typed(data)         # only inputs inside the law's domain can be judged by it
            except Exception:
                return None
            return ("from_raw_iff_fields_valid", {"data": [[a, b] for a, b in data.items()]})
        return None

    # ---- laws on the real code
    def gen_laws(self, rng, n):
        k = 0
        while k < n:
            data, plan = law_dict(rng)
            data = [[a, b] for a, b in data.items()]
            yield ("from_raw_iff_fields_valid", {"data": data}); k += 1
            if k % 2 == 0:
                # the same dict with values from the full pools (content types / paths outside the clear-cut tables too)
                wild = dict((a, b) for a, b in data)
                for f in ("description_content_type", "license_files"):
                    if f in wild or rng.random() < 0.5:
                        pool = G.POOLS[f]
                        wild[f] = rng.choice(pool[0] + pool[1] + pool[2] * 3)
                yield ("outcome_class", {"data": [[a, b] for a, b in wild.items()], "seed": rng.randrange(1 << 30)}); k += 1
            yield ("lazy_same_errors", {"data": data, "seed": rng.randrange(1 << 30)}); k += 1
            if k % 3 == 0:
                yield ("reads_history_independent", {"data": data, "seed": rng.randrange(1 << 30)}); k += 1
            if k % 4 == 0:
                doc = G.document(rng, wellformed=True)
                if rng.random() < 0.8:
                    # mostly documents that parse completely, so that the from_raw stage of from_email is reached
                    from props.C18 import expected_parse
                    exp = expected_parse(doc)
                    if exp is not None and exp[1]:
                        doc["headers"] = [h for h in doc["headers"] if h[0].lower() not in exp[1]]
                        if "description" in exp[1]:
                            doc["body"] = None
                    if rng.random() < 0.6:
                        have = {h[0].lower() for h in doc["headers"]}
                        for name, val in (("Metadata-Version", rng.choice(G.SPEC_VERSIONS)), ("Name", "foo"), ("Version", "1.0")):
                            if name.lower() not in have:
                                doc["headers"].append([name, ["t", val]])
                yield ("from_email_reports", {"doc": doc}); k += 1

    def check_law(self, law, inp):
        M = _M()
        if "data" in inp:
            inp = dict(inp, data=_as_dict(inp["data"]))
        if law == "from_raw_iff_fields_valid":
            data = inp["data"]
            _typed(data)
            want = expected_offenders(data)
            before = copy.deepcopy(data)
            _prior_history(M, data)
            try:
                m = M.Metadata.from_raw(data)
            except M.ExceptionGroup as g:
                bad = [e for e in g.exceptions if not isinstance(e, M.InvalidMetadata)]
                if bad:
                    return False, f"group holds {type(bad[0]).__name__}"
                got = sorted(e.field for e in g.exceptions)
                if set(got) != want:       # as a set: an unknown key may be spelled like a header name
                    return False, f"ExceptionGroup names {got}, offending fields are {sorted(want)}"
            except Exception as e:
                return False, f"raises {type(e).__name__} instead of an ExceptionGroup (offending fields: {sorted(want)})"
            else:
                if want:
                    return False, f"accepted although {sorted(want)} offend"
                for k in G.FIELDS:
                    try:
                        got = canon(getattr(m, k))
                    except Exception as e:
                        return False, f"{k}: reading it after a successful validation raises {type(e).__name__}"
                    exp = enriched(k, data.get(k))
                    if got != exp:
                        return False, f"{k}: enriched value {got} != component parser's {exp}"
                    bad_type = _enriched_type_problem(k, getattr(m, k))
                    if bad_type:
                        return False, f"{k}: {bad_type} (raw value {data.get(k)!r})"
            if not _same(before, data):
                return False, "caller's dict modified"
            return True, ""
        if law == "outcome_class":
            # whatever the values: validation ends in a Metadata or in one ExceptionGroup of InvalidMetadata, each naming a
            # field; a lazy read ends in a value or in InvalidMetadata naming that field
            data = inp["data"]
            _typed(data, tables=False)
            before = copy.deepcopy(data)
            try:
                M.Metadata.from_raw(data)
            except M.ExceptionGroup as g:
                bad = [e for e in g.exceptions if not isinstance(e, M.InvalidMetadata)]
                if bad:
                    return False, f"group holds {type(bad[0]).__name__}"
            except Exception as e:
                return False, f"raises {type(e).__name__} instead of an ExceptionGroup"
            m = M.Metadata.from_raw(data, validate=False)
            fields = list(G.FIELDS)
            random.Random(inp["seed"]).shuffle(fields)
            for k in fields:
                try:
                    getattr(m, k)
                except M.InvalidMetadata as e:
                    if e.field != G.email_name(k):
                        return False, f"{k}: error names {e.field!r}"
                except Exception as e:
                    return False, f"reading {k} raises {type(e).__name__}"
            if not _same(before, data):
                return False, "caller's dict modified"
            return True, ""
        if law == "lazy_same_errors":
            data = inp["data"]
            _typed(data)
            rng = random.Random(inp["seed"])
            before = copy.deepcopy(data)
            m = M.Metadata.from_raw(data, validate=False)
            fields = list(G.FIELDS)
            rng.shuffle(fields)
            for k in fields + fields[:5]:
                ok = (isinstance(data.get(k), str) and data[k] in G.SPEC_VERSIONS) if k == "metadata_version" \
                    else field_valid(k, data.get(k))
                try:
                    v = getattr(m, k)
                except M.InvalidMetadata as e:
                    if ok:
                        return False, f"reading valid {k} raises InvalidMetadata"
                    if e.field != G.email_name(k):
                        return False, f"{k}: error names {e.field!r}"
                except Exception as e:
                    return False, f"reading {k} raises {type(e).__name__}"
                else:
                    if not ok:
                        return False, f"reading invalid {k} returns {v!r}"
                    if canon(v) != enriched(k, data.get(k)):
                        return False, f"{k}: {canon(v)} != {enriched(k, data.get(k))}"
                    if k not in data and v is not None:
                        return False, f"absent optional {k} reads {v!r}"
            if not _same(before, data):
                return False, "caller's dict modified"
            return True, ""
        if law == "reads_history_independent":
            data = inp["data"]
            _typed(data)
            rng = random.Random(inp["seed"])
            before = copy.deepcopy(data)

            def run(seq):
                m = M.Metadata.from_raw(data, validate=False)
                seen = {}
                for k in seq:
                    try:
                        r = "v" + canon(getattr(m, k))
                    except Exception as e:
                        r = "e" + type(e).__name__ + ":" + str(getattr(e, "field", ""))
                    if seen.setdefault(k, r) != r:
                        return None, f"{k} read {seen[k]} then {r}"
                return seen, ""
            seq1 = [rng.choice(G.FIELDS) for _ in range(40)] + G.FIELDS
            seq2 = list(G.FIELDS)
            rng.shuffle(seq2)
            a, why = run(seq1)
            if a is None:
                return False, why
            b, why = run(seq2 + seq2)
            if b is None:
                return False, why
            if a != b:
                k = next(k for k in G.FIELDS if a[k] != b[k])
                return False, f"{k} depends on the read history: {a[k]} vs {b[k]}"
            if not _same(before, data):
                return False, "caller's dict modified"
            # the object holds the values it was *given*: what the caller does with its own dict afterwards (adding,
            # dropping, replacing top-level keys) does not show in an object built before, validated or not
            later = {"summary": "added later", "requires_python": ">=99", "requires_dist": ["###"], "author": "later",
                     "keywords": ["later"], "license_expression": "not a license !", "provides_extra": ["Not_Normal"]}

            def reads(m):
                out = {}
                for k in G.FIELDS:
                    try:
                        out[k] = "v" + canon(getattr(m, k))
                    except Exception as e:
                        out[k] = "e" + type(e).__name__ + ":" + str(getattr(e, "field", ""))
                return out
            for validate in (True, False):
                mine = copy.deepcopy(before)
                try:
                    m = M.Metadata.from_raw(mine, validate=validate)
                    ref = M.Metadata.from_raw(copy.deepcopy(before), validate=validate)
                except Exception:
                    continue
                for k, v in later.items():
                    if k not in mine and rng.random() < 0.7:
                        mine[k] = v
                for k in list(mine):
                    if k not in later and rng.random() < 0.3:
                        del mine[k]
                ra, rb = reads(m), reads(ref)
                if ra != rb:
                    k = next(k for k in G.FIELDS if ra[k] != rb[k])
                    return False, (f"Metadata.from_raw(d, validate={validate}).{k} reads {ra[k]} after the caller changed its own dict "
                                   f"to {mine!r}; an object built from the same values reads {rb[k]}")
            return True, ""
        if law == "from_email_reports":
            from props.C18 import ANY, expected_parse
            doc = inp["doc"]
            text = G.build_doc(doc)
            exp = expected_parse(doc)
            if exp is None or any(v is ANY or (isinstance(v, list) and ANY in v) for v in exp[0].values()):
                return True, "outside the law's domain"
            raw, unparsed = exp
            want = set(unparsed) | expected_offenders(raw)
            try:
                M.Metadata.from_email(text)
            except M.ExceptionGroup as g:
                got = sorted(getattr(e, "field", type(e).__name__) for e in g.exceptions)
                if set(got) != want:
                    return False, f"ExceptionGroup names {got}, expected {sorted(want)}"
            except Exception as e:
                return False, f"raises {type(e).__name__} instead of an ExceptionGroup"
            else:
                if want:
                    return False, f"accepted although {sorted(want)} offend"
            return True, ""
        raise KeyError(law)


def _prior_history(M, data):
    """an earlier caller built a Metadata from an equal dict, read everything and changed what it was handed (the enriched
    values are its own: Requirement objects are mutable, lists are lists); none of that may show in a later Metadata"""
    try:
        prev = M.Metadata.from_raw(copy.deepcopy(data), validate=False)
    except Exception:
        return
    for k in G.FIELDS:
        try:
            v = getattr(prev, k)
        except Exception:
            continue
        for x in (v if isinstance(v, list) else [v]):
            if type(x).__name__ == "Requirement":
                x.extras.add("scribble")
                x.marker, x.url, x.name = None, "https://scribble.example/", "scribble"
                x.specifier.prereleases = True
            elif type(x).__name__ == "SpecifierSet":
                x.prereleases = True
        if isinstance(v, list):
            v.append("scribble")
        elif isinstance(v, dict):
            v["scribble"] = "scribble"


def _as_dict(d):
    """law inputs carry the dict as a list of [key, value] pairs so that the generic shrinker can drop entries"""
    return dict((k, v) for k, v in d) if isinstance(d, list) else d


def _typed(data, tables=True):
    """domain of the laws: RawMetadata-typed dicts (str keys; str / list[str] / dict[str,str] / None values)"""
    if not isinstance(data, dict):
        raise TypeError("not a dict")
    for k, v in data.items():
        if not isinstance(k, str):
            raise TypeError("key")
        typ = G.SPEC_FIELDS.get(k, (None, None))[1]
        if v is None or typ is None:
            if not (v is None or isinstance(v, str) or (isinstance(v, list) and all(isinstance(x, str) for x in v))):
                raise TypeError("value")
            continue
        if typ == "str" and not isinstance(v, str):
            raise TypeError(k)
        if typ in ("list", "keywords") and not (isinstance(v, list) and all(isinstance(x, str) for x in v)):
            raise TypeError(k)
        if typ == "dict" and not (isinstance(v, dict) and all(isinstance(a, str) and isinstance(b, str) for a, b in v.items())):
            raise TypeError(k)
        if not tables:
            continue
        if k == "description_content_type" and v not in CT_EXPECT:
            raise ValueError("content type outside the clear-cut table")
        if k == "license_files" and any(p not in LF_EXPECT for p in v):
            raise ValueError("path outside the clear-cut table")


from srccall import with_src  # noqa: E402

# translated source: ten of the `_process_*` validators are proved equal to the model's `Meta.proc*` for the oracle built from
# `Meta.Oracle` (PyMeta.extOf): enriched values are objects known by class and canonical text, exceptions are their classes
_VALIDATORS = ['metadata_version', 'name', 'version', 'summary', 'dynamic', 'provides_extra', 'requires_python', 'requires_dist', 'license_expression', 'license_files']
PROP = with_src(C17(), share=10, functions=["_Validator._process_" + v for v in _VALIDATORS], module="PkgProofs.Props.Src.Metadata",
                theorems=["Src._Validator._process_metadata_version_translated", "Src._Validator._process_metadata_version_eq_model", "Src._Validator._process_name_translated", "Src._Validator._process_name_eq_model", "Src._Validator._process_version_translated", "Src._Validator._process_version_eq_model", "Src._Validator._process_summary_translated", "Src._Validator._process_summary_eq_model", "Src._Validator._process_dynamic_translated", "Src._Validator._process_dynamic_eq_model", "Src._Validator._process_provides_extra_translated", "Src._Validator._process_provides_extra_eq_model", "Src._Validator._process_requires_python_translated", "Src._Validator._process_requires_python_eq_model", "Src._Validator._process_requires_dist_translated", "Src._Validator._process_requires_dist_eq_model", "Src._Validator._process_license_expression_translated", "Src._Validator._process_license_expression_eq_model", "Src._Validator._process_license_files_translated", "Src._Validator._process_license_files_eq_model"])
# x6: `_process_description_content_type` — the `EmailMessage` answers through the oracle (`PyMd.extOf6`, as `Meta.Oracle.ctype`)
PROP = with_src(PROP, share=10, functions=["_Validator._process_description_content_type"], module="PkgProofs.Props.Src.MetaCtype",
                theorems=["Src._Validator._process_description_content_type_translated",
                          "Src._Validator._process_description_content_type_eq_model"])
# x6: `_Validator.__get__` (the per-instance cache and the `_raw` pop): proved equal to `Meta.descGet` up to look-ups
# (`Src.InstRel`), for raw values of the type the converter expects (`Src.WellTyped`) — the model's `tyErr` cases do not
# mirror the source on ill-typed raw data
PROP = with_src(PROP, share=10, functions=["_Validator.__get__"], module="PkgProofs.Props.Src.MetaGet",
                theorems=["Src._Validator.__get___translated", "Src._Validator._process__dyn_eq", "Src.procSrc_eq_model",
                          "Src._Validator.__get___eq_model", "Src._Validator.__get___no_converter"])
# x7: the entry points — `InvalidMetadata.__init__`, `_Validator._invalid_metadata`, `Metadata.from_raw`, `Metadata.from_email` — with
# exceptions as objects (`PyX7.MX`), the class's descriptor table generated from the class and the descriptor protocol behind
# `ins.metadata_version` / `getattr(ins, key)` (through the translated `_Validator.__get__`); proved equal to Meta.fromRaw / Meta.fromEmail
# for the visiting order the code computes (`Src.ksOf`, a permutation of Meta.fieldsToCheck: `Src.ksOf_perm`), for dict data of the
# types RawMetadata declares (`Src.WellTyped`), up to look-ups (`Src.InstRel`); `parse_email` answers `from_email` through the oracle
PROP = with_src(PROP, share=10,
                functions=["InvalidMetadata.__init__", "_Validator._invalid_metadata", "Metadata.from_raw", "Metadata.from_email"],
                module=["PkgProofs.Props.Src.MetaFrom"],
                theorems=["Src.from_translated", "Src.InvalidMetadata.__init___eq_model", "Src._Validator._invalid_metadata_eq_model",
                          "Src.descriptors_all", "Src.descriptors_eq", "Src.Metadata.__getattr__dyn_eq_model",
                          "Src.Metadata.from_raw_eq_model", "Src.ksOf_perm", "Src.Metadata.from_email_eq_model"])

# x9: `parse_email` (owner C18) is translated from metadata.py and proved equal to Email.parseEmail (Src/ParseEmail.lean); this property
# relies on it too (entry point that never raises / the input of `from_email` / a visiting order that does not depend on the hash seed:
# `Src.orderOf` is computed by sorting), so its obligations are listed here as well
from srccall import with_src as _x9_with_src  # noqa: E402
PROP = _x9_with_src(PROP, share=16, functions=["parse_email"], module=["PkgProofs.Props.Src.ParseEmail"],
                    theorems=["Src.parse_email_translated", "Src.parse_email_eq_model", "Src.orderOf_perm"])
