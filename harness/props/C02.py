"""C02 — Version components and normal forms are faithful and canonical;
canonicalize_version is a complete invariant of version equality."""
from __future__ import annotations

import random
import sys

import core
from gen import versions as G
from run import Prop


def _V():
    from packaging.version import InvalidVersion, Version
    return Version, InvalidVersion


def _canon():
    from packaging.utils import canonicalize_version
    return canonicalize_version


class RealCodeRaised(Exception):
    """the code under test raised where the property statement says it must not"""


def _guard(f, what):
    def g(*a, **k):
        try:
            return f(*a, **k)
        except Exception as e:
            args = ", ".join(repr(x) for x in a)[:90]
            raise RealCodeRaised(f"{what}({args}) raised {type(e).__name__}: {str(e)[:80]}") from None
    return g


def int_limit():
    """CPython's int<->str conversion limit in digits (0 = unlimited, or absent before 3.11)"""
    f = getattr(sys, "get_int_max_str_digits", None)
    return f() if f else 0


# ---------------------------------------------------------------- protocol rendering of the real objects
def enc_tuple(v):
    """the ``_Version`` tuple in the driver's ``encVer`` format"""
    t = v._version
    pre = "~" if t.pre is None else f"{t.pre[0]}{t.pre[1]}"
    post = "~" if t.post is None else (str(t.post[1]) if t.post[0] == "post" else f"?{t.post[0]}{t.post[1]}")
    dev = "~" if t.dev is None else (str(t.dev[1]) if t.dev[0] == "dev" else f"?{t.dev[0]}{t.dev[1]}")
    if t.local is None:
        loc = "~"
    else:
        loc = ",".join(("n" + str(x)) if isinstance(x, int) else ("s" + core.enc(x)) for x in t.local)
    return f"{t.epoch}|{','.join(str(x) for x in t.release)}|{pre}|{post}|{dev}|{loc}"


def enc_view(v):
    return "|".join([
        core.enc(str(v)), core.enc(v.public), core.enc(v.base_version), core.enc(v.local),
        str(v.major), str(v.minor), str(v.micro),
        core.encb(v.is_prerelease), core.encb(v.is_postrelease), core.encb(v.is_devrelease)])


# ---------------------------------------------------------------- spellings (superset of gen.versions.spell)
def spell_x(rng, v, *, ws=True):
    """An alternate spelling of ``v``.  Beyond ``gen.versions.spell`` it also writes the optional separator
    that may *follow* a letter whose number is implicit (``1.0a.``, ``1.0.post-.dev_``, ``1.0.dev.+x``)."""
    d_ = G._digits
    s = ""
    if ws and rng.random() < 0.15:
        s += "".join(rng.choice(G.WS) for _ in range(rng.choice([1, 2])))
    if rng.random() < 0.15:
        s += rng.choice("vV")
    if v["epoch"] or rng.random() < 0.1:
        s += d_(rng, v["epoch"]) + "!"
    s += ".".join(d_(rng, x) for x in v["release"])
    bare = False      # the previous group ended in a bare letter (no separator, no number)

    def letter_group(word, n):
        nonlocal s, bare
        s += rng.choice(G.SEPS) + G._case(rng, word)
        d = d_(rng, n, implicit_ok=True)
        if d:
            s += rng.choice(G.SEPS) + d
            bare = False
        elif rng.random() < 0.3:
            s += rng.choice(G.SEPS[1:])          # trailing separator, still the implicit number 0
            bare = False
        else:
            bare = True

    if v["pre"]:
        letter_group(rng.choice(G.PRE_SPELL[v["pre"][0]]), v["pre"][1])
    if v["post"] is not None:
        # `-N` directly after a bare pre-release letter is that letter's number (the engine's greedy reading)
        if rng.random() < 0.25 and not (v["pre"] and bare):
            s += "-" + d_(rng, v["post"])
            bare = False
        else:
            letter_group(rng.choice(G.POST_SPELL), v["post"])
    if v["dev"] is not None:
        letter_group("dev", v["dev"])
    if v["local"] is not None:
        parts = [d_(rng, x) if isinstance(x, int) else G._case(rng, x) for x in v["local"]]
        out = parts[0]
        for p in parts[1:]:
            out += rng.choice([".", "-", "_"]) + p
        s += "+" + out
    if ws and rng.random() < 0.15:
        s += "".join(rng.choice(G.WS) for _ in range(rng.choice([1, 2])))
    return s


def any_spell(rng, v):
    return spell_x(rng, v) if rng.random() < 0.6 else G.spell(rng, v)


# ---------------------------------------------------------------- the PEP 440 reading of a structure
def _norm(v):
    v = dict(v)
    if v.get("pre"):
        v["pre"] = (v["pre"][0], v["pre"][1])
    v["release"] = list(v["release"])
    if v.get("local") is not None:
        v["local"] = list(v["local"])
    return v


def reading(v):
    """every public observable, written from the structure (independent of the code under test)"""
    rel = tuple(v["release"])
    base = (f"{v['epoch']}!" if v["epoch"] else "") + ".".join(map(str, rel))
    public = base
    if v["pre"]:
        public += f"{v['pre'][0]}{v['pre'][1]}"
    if v["post"] is not None:
        public += f".post{v['post']}"
    if v["dev"] is not None:
        public += f".dev{v['dev']}"
    local = None if v["local"] is None else ".".join(str(x) for x in v["local"])
    return {
        "epoch": v["epoch"], "release": rel, "pre": tuple(v["pre"]) if v["pre"] else None,
        "post": v["post"], "dev": v["dev"], "local": local,
        "public": public, "base_version": base,
        "major": rel[0], "minor": rel[1] if len(rel) > 1 else 0, "micro": rel[2] if len(rel) > 2 else 0,
        "is_prerelease": bool(v["pre"]) or v["dev"] is not None,
        "is_postrelease": v["post"] is not None, "is_devrelease": v["dev"] is not None,
        "_version": {"epoch": v["epoch"], "release": rel, "pre": tuple(v["pre"]) if v["pre"] else None,
                     "post": None if v["post"] is None else ("post", v["post"]),
                     "dev": None if v["dev"] is None else ("dev", v["dev"]),
                     "local": None if v["local"] is None else tuple(v["local"])},
    }


def trimmed(v):
    """the structure with trailing zero release components removed (at least one kept)"""
    w = dict(v)
    rel = list(v["release"])
    while len(rel) > 1 and rel[-1] == 0:
        rel.pop()
    w["release"] = rel
    return w


def same_meaning(rng, v):
    """an equal version: trailing zero release components added or removed"""
    w = _norm(v)
    rel = list(w["release"])
    if rng.random() < 0.5 or len(rel) == 1 or rel[-1] != 0:
        rel = rel + [0] * rng.choice([1, 1, 2, 3])
    else:
        while len(rel) > 1 and rel[-1] == 0 and rng.random() < 0.7:
            rel.pop()
    w["release"] = rel
    return w


FIELDS = ["epoch", "release", "pre", "post", "dev", "local", "public", "base_version", "major", "minor", "micro",
          "is_prerelease", "is_postrelease", "is_devrelease"]


def observe(ver):
    d = {k: getattr(ver, k) for k in FIELDS}
    d["_version"] = ver._version._asdict()     # by field name: the tuple's field order is not part of the property
    return d


class C02(Prop):
    id = "C02"
    lean_modules = ["PkgProofs.Props.C02"]
    theorems = [
        "C02.scan_str", "C02.scan_wf", "C02.str_inj", "C02.str_idempotent", "C02.scan_public", "C02.scan_base",
        "C02.canon_obj", "C02.canon_arms_agree", "C02.canon_passthrough", "C02.canon_nostrip_eq_str",
        "C02.canon_never_raises", "C02.canon_obj_never_raises", "C02.canon_value", "C02.canon_parses_back",
        "C02.canon_idem", "C02.canon_strip_after_nostrip", "C02.canon_complete_invariant",
        "C02.canon_complete_invariant_str", "C02.canon_nostrip_invariant", "C02.str_parts", "C02.public_is_split", "C02.flags",
        "C02.major_minor_micro", "C02.scan_render", "C02.scan_sound", "C02.components_are_pep440_reading",
        "C02.str_is_normal_form", "C02.spelling_independent",
        "V.scan_str", "V.scan_wf", "V.cmpkey_eq_iff",
    ]
    generated = ["VersionRx"]
    rule = ("strings = every alternate spelling (case, separators incl. the one after an implicit number, word "
            "spellings, leading zeros, v, white space, implicit post) of structures drawn with near neighbours "
            "(epoch x trailing zeros x pre/post/dev x mixed local segments), plus ~25% token/character damage; "
            "non-trivial = accepted by the implementation; distinct = distinct protocol lines")
    trusted = ["CPython re's leftmost-greedy capture choice (which text lands in which group) is mirrored by the "
               "hand-written scanner V.scan; the tie for the components is this correspondence. Acceptance is proved: "
               "V.scan accepts s <=> the regex regenerated from Version._regex accepts s, for every string "
               "(C12.scan_accepts_iff_source_regex, via C12.scan_accepts_iff_spec_rx and C12.version_language); "
               "'ver.accept' stays as a run-time cross-check of the same statement on the malformed stream",
               "PkgModel/Spec/Spelling.lean as the reading of 'PEP 440 reading of that string with every alternate "
               "spelling normalised' (parse tree of the Appendix B grammar, render, meaning, normalise)",
               "int()/str() on ASCII digit strings below sys.get_int_max_str_digits() (modelled by Py.undec / Py.dec)"]
    partial = ["numeric components longer than the interpreter's int/str digit limit are in the language and in the "
               "theorems, but CPython >= 3.11 cannot construct them (known finding, law long_numeric_component)"]
    budget = {"quick": (12000, 10000), "thorough": (600000, 400000)}

    # ------------------------------------------------------------ correspondence
    def gen_cases(self, rng, n):
        pool = G.pool(rng, max(30, n // 25))
        for i in range(n):
            v = rng.choice(pool)
            s = any_spell(rng, v)
            r = rng.random()
            if r < 0.25:
                s = G.malformed(rng, s)
            k = i % 10
            if k < 3:
                yield ("ver.parse", [core.enc(s)])
            elif k < 5:
                yield ("ver.view", [core.enc(s)])
            elif k < 7:
                yield ("ver.canon", [str(rng.randrange(2)), core.enc(s)])
            elif k < 8:
                yield ("ver.canonv", [str(rng.randrange(2)), core.enc(s)])
            else:
                if r >= 0.25 and rng.random() < 0.6:
                    s = G.malformed(rng, s)          # the acceptance comparison lives on the malformed stream
                yield ("ver.accept", [core.enc(s)])

    def real(self, op, args):
        Version, InvalidVersion = _V()
        if op in ("ver.parse", "ver.view", "ver.accept"):
            s = core.dec(args[0])
            try:
                v = Version(s)
            except InvalidVersion:
                return "00" if op == "ver.accept" else "err InvalidVersion"
            except Exception as e:
                return "raw " + type(e).__name__
            if op == "ver.accept":
                return "11"
            return "ok " + enc_tuple(v) if op == "ver.parse" else enc_view(v)
        if op == "ver.canon":
            try:
                return core.enc(_canon()(core.dec(args[1]), strip_trailing_zero=args[0] == "1"))
            except Exception as e:
                return "raw " + type(e).__name__
        if op == "ver.canonv":
            try:
                v = Version(core.dec(args[1]))
            except InvalidVersion:
                return "err InvalidVersion"
            try:
                return core.enc(_canon()(v, strip_trailing_zero=args[0] == "1"))
            except Exception as e:
                return "raw " + type(e).__name__
        raise KeyError(op)

    def nontrivial(self, op, args, out):
        return not out.startswith(("err", "raw", "00", "harness-error"))

    def branch(self, op, args, out):
        if out.startswith(("err", "raw", "harness-error")):
            return op + ":" + out.split(":")[0]
        if op == "ver.parse":      # which components are present
            e, rel, pre, post, dev, loc = out[3:].split("|")
            fl = ("E" if e != "0" else "") + ("P" if pre != "~" else "") + ("O" if post != "~" else "") + \
                 ("D" if dev != "~" else "") + ("L" if loc != "~" else "")
            return "ver.parse:ok:" + (fl or "plain")
        if op == "ver.view":       # which spelling freedoms the input uses
            return "ver.view:ok:" + (_spelling_features(core.dec(args[0])) or "normal")
        if op in ("ver.canon", "ver.canonv"):
            s = core.dec(args[1])
            try:
                valid = "trimmed" if core.enc(str(_V()[0](s))) != out else "=str"
            except Exception:
                valid = "passthrough"
            return f"{op}:{args[0]}:{valid}"
        if op == "ver.accept":
            return "ver.accept:" + out
        return op + ":ok"

    def judge(self, op, args, real, model, driver):
        # a model/implementation disagreement is a C02 violation only if the real code breaks one of the
        # property's own statements on that string
        s = core.dec(args[-1])
        lim = int_limit()
        if lim and any(len(r) > lim for r in _digit_runs(s)):
            return ("long_numeric_component", {"digits": max(len(r) for r in _digit_runs(s)), "where": "release"})
        return ("string_laws", {"s": s})

    # ------------------------------------------------------------ laws on the real code
    def gen_laws(self, rng, n):
        lim = int_limit()
        if lim:
            # the interpreter's digit limit: the last length that works and the first that does not
            yield ("long_numeric_component", {"digits": lim, "where": "release"})
            yield ("long_numeric_component", {"digits": lim + 1, "where": "release"})
        pool = G.pool(rng, max(30, n // 30))
        k = 0
        while k < n:
            a = rng.choice(pool)
            sd = rng.randrange(1 << 30)
            m = k % 10
            k += 1
            if m < 3:
                yield ("components_are_reading", {"v": a, "seed": sd})
            elif m < 5:
                yield ("str_is_normal_form", {"v": a, "seed": sd})
            elif m < 7:
                how = rng.choice(["same", "same", "adjacent", "adjacent", "pool", "hashtwin"])
                if how == "hashtwin":
                    # a different version whose numbers CPython *hashes* like a's (ints are hashed modulo 2**61 - 1): an
                    # equality that consults hashes, or a table keyed on them, confuses the two
                    import sys as _sys
                    M = _sys.hash_info.modulus * rng.choice([1, 1, 2])
                    b = dict(a, release=list(a["release"]))
                    where = rng.choice(["release", "release", "epoch", "pre", "post", "dev"])
                    if where == "release":
                        i = rng.randrange(len(b["release"])); b["release"][i] += M
                    elif where == "epoch":
                        b["epoch"] = (b.get("epoch") or 0) + M
                    elif where == "pre" and b.get("pre"):
                        b["pre"] = [b["pre"][0], b["pre"][1] + M]
                    elif b.get(where) is not None and where in ("post", "dev"):
                        b[where] = b[where] + M
                    else:
                        b["release"][-1] += M
                else:
                    b = same_meaning(rng, a) if how == "same" else (G.neighbour(rng, a) if how == "adjacent" else rng.choice(pool))
                yield ("canon_complete_invariant", {"a": a, "b": b, "seed": sd})
            elif m < 9:
                yield ("canon_laws", {"v": a, "seed": sd})
            else:
                s = G.malformed(rng, any_spell(rng, a))
                yield ("string_laws", {"s": s})

    def check_law(self, law, inp):
        try:
            return self._check(law, inp)
        except RealCodeRaised as e:
            return False, str(e)

    def _check(self, law, inp):
        RawVersion, InvalidVersion = _V()
        Version = _guard(RawVersion, "Version")
        canon = _guard(_canon(), "canonicalize_version")
        if law == "long_numeric_component":
            n = int(inp["digits"])
            if not (1 <= n <= 100000) or inp["where"] not in ("release", "epoch", "post", "local"):
                raise ValueError("outside the law's domain")
            ds = "9" * n
            s = {"release": "1." + ds, "epoch": ds + "!1", "post": "1.post" + ds, "local": "1+" + ds}[inp["where"]]
            try:
                v = RawVersion(s)
            except Exception as e:
                return False, (f"a version whose {inp['where']} component has {n} digits is in the PEP 440 language "
                               f"but Version() raises {type(e).__name__}: {str(e)[:80]}")
            want = 10 ** n - 1
            got = {"release": lambda: v.release[1], "epoch": lambda: v.epoch, "post": lambda: v.post,
                   "local": lambda: v._version.local[0]}[inp["where"]]()
            return got == want, ("" if got == want else f"{inp['where']} component of {n} nines read as a different number")
        if law == "string_laws":
            return self._string_laws(inp["s"])
        rng = random.Random(inp["seed"])
        if law == "components_are_reading":
            v = _norm(inp["v"])
            _domain(v)
            s = any_spell(rng, v)
            want = reading(v)
            try:
                got = observe(RawVersion(s))
            except InvalidVersion:
                return False, f"{s!r} spells {G.normal(v)!r} but is rejected"
            for k in want:
                if got[k] != want[k] or type(got[k]) is not type(want[k]):
                    return False, f"Version({s!r}).{k} = {got[k]!r}, PEP 440 reading is {want[k]!r}"
            return True, ""
        if law == "str_is_normal_form":
            v = _norm(inp["v"])
            _domain(v)
            s = any_spell(rng, v)
            ver = Version(s)
            out = str(ver)
            if out != G.normal(v):
                return False, f"str(Version({s!r})) = {out!r}, normal form is {G.normal(v)!r}"
            again = Version(out)
            if not (again == ver) or again != ver or hash(again) != hash(ver):
                return False, f"Version(str(Version({s!r}))) is not equal to the original"
            if tuple(again._version) != tuple(ver._version) or observe(again) != observe(ver):
                return False, f"re-parsing {out!r} changes components"
            if str(again) != out:
                return False, f"str is not stable: {out!r} -> {str(again)!r}"
            if repr(ver) != f"<Version('{out}')>":
                return False, f"repr {repr(ver)!r}"
            return True, ""
        if law == "canon_complete_invariant":
            a, b = _norm(inp["a"]), _norm(inp["b"])
            _domain(a); _domain(b)
            sa, sb = any_spell(rng, a), any_spell(rng, b)
            eq = Version(sa) == Version(sb)
            want = G.ref_cmp(a, b) == 0
            for strip in (True,):
                ca, cb = canon(sa, strip_trailing_zero=strip), canon(sb, strip_trailing_zero=strip)
                if (ca == cb) != eq:
                    return False, (f"{sa!r} {'==' if eq else '!='} {sb!r} but canonical strings are "
                                   f"{ca!r} and {cb!r}")
            if eq != want:
                return False, f"{sa!r} vs {sb!r}: == gives {eq}, PEP 440 says {want}"
            # the Version-object arm gives the same invariant
            if (canon(Version(sa)) == canon(Version(sb))) != eq:
                return False, f"canonicalize_version on Version objects is not an invariant for {sa!r}, {sb!r}"
            return True, ""
        if law == "canon_laws":
            v = _norm(inp["v"])
            _domain(v)
            s = any_spell(rng, v)
            ver = Version(s)
            c1, c0 = canon(s), canon(s, strip_trailing_zero=False)
            if c1 != G.normal(trimmed(v)):
                return False, f"canonicalize_version({s!r}) = {c1!r}, expected {G.normal(trimmed(v))!r}"
            if c0 != str(ver) or c0 != G.normal(v):
                return False, f"canonicalize_version({s!r}, strip_trailing_zero=False) = {c0!r} but str(Version) = {str(ver)!r}"
            if canon(ver) != c1 or canon(ver, strip_trailing_zero=False) != c0:
                return False, f"str and Version arms differ on {s!r}"
            for c, strip in ((c1, True), (c0, False)):
                if canon(c, strip_trailing_zero=strip) != c:
                    return False, f"not idempotent (strip={strip}): {s!r} -> {c!r} -> {canon(c, strip_trailing_zero=strip)!r}"
                try:
                    back = RawVersion(c)
                except InvalidVersion:
                    return False, f"canonical form {c!r} of {s!r} does not parse"
                if not (back == ver) or hash(back) != hash(ver):
                    return False, f"canonical form {c!r} of {s!r} parses to a different version"
            if canon(c0) != c1 or canon(c1, strip_trailing_zero=False) != c1:
                return False, f"the two flag values do not compose on {s!r}"
            return True, ""
        raise KeyError(law)

    def _string_laws(self, s):
        """what the statement says about an arbitrary string, valid or not"""
        RawVersion, InvalidVersion = _V()
        Version = _guard(RawVersion, "Version")
        canon = _guard(_canon(), "canonicalize_version")
        if not isinstance(s, str):
            raise TypeError("not a string")
        lim = int_limit()
        if lim and any(len(r) > lim for r in _digit_runs(s)):
            raise ValueError("numeric component beyond the interpreter limit (law long_numeric_component)")
        try:
            ver = RawVersion(s)
        except InvalidVersion:
            for strip in (True, False):
                c = canon(s, strip_trailing_zero=strip)
                if c != s or type(c) is not str:
                    return False, f"non-version {s!r} is not returned unchanged (strip={strip}): {c!r}"
            return True, "non-version"
        except Exception as e:
            return False, f"Version({s!r}) raised {type(e).__name__} (neither accepted nor InvalidVersion)"
        out = str(ver)
        again = Version(out)
        if not (again == ver) or tuple(again._version) != tuple(ver._version) or str(again) != out:
            return False, f"str(Version({s!r})) = {out!r} does not parse back to the same version"
        if observe(again) != observe(ver):
            return False, f"re-parsing {out!r} changes attributes"
        c1, c0 = canon(s), canon(s, strip_trailing_zero=False)
        if c0 != out:
            return False, f"canonicalize_version({s!r}, strip_trailing_zero=False) = {c0!r} != str = {out!r}"
        for c, strip in ((c1, True), (c0, False)):
            if canon(c, strip_trailing_zero=strip) != c:
                return False, f"canonicalize_version not idempotent on {s!r} (strip={strip})"
            if not (Version(c) == ver):
                return False, f"canonical form {c!r} of {s!r} is a different version"
        if canon(ver) != c1 or canon(ver, strip_trailing_zero=False) != c0:
            return False, f"str and Version arms of canonicalize_version differ on {s!r}"
        if ver.public != out.split("+")[0] or (ver.local is None) != ("+" not in out):
            return False, f"public/local do not partition str on {s!r}"
        return True, ""


_ALT = None


def _spelling_features(s):
    """x: white space or v prefix; U: upper case; a: alternate word; i: implicit post `-N`;
    t: separator after a word with implicit number; z: leading zero"""
    import re
    global _ALT
    if _ALT is None:
        _ALT = re.compile(r"alpha|beta|preview|pre|rev|(?<![a-z])c(?![a-z])|(?<![a-z])r(?![a-z])")
    pub = s.strip().split("+")[0]
    low = pub.lower()
    fl = ""
    if s != s.strip() or low[:1] == "v":
        fl += "x"
    if any(c.isupper() for c in s.strip()[1:]):
        fl += "U"
    if _ALT.search(low.lstrip("v")):
        fl += "a"
    if re.search(r"[0-9]-[0-9]", low):
        fl += "i"
    if re.search(r"[a-z][-_.](?![0-9])", low):
        fl += "t"
    if re.search(r"(?<![0-9])0[0-9]", s):
        fl += "z"
    return fl


def _digit_runs(s):
    import re
    return re.findall(r"[0-9]+", s)


def _domain(v):
    """structures the laws are stated for (shrinking may leave it)"""
    if not (isinstance(v["epoch"], int) and v["epoch"] >= 0):
        raise ValueError("epoch")
    if not v["release"] or not all(isinstance(x, int) and x >= 0 for x in v["release"]):
        raise ValueError("release")
    if v["pre"] is not None and not (len(v["pre"]) == 2 and v["pre"][0] in G.PRE_SPELL and
                                     isinstance(v["pre"][1], int) and v["pre"][1] >= 0):
        raise ValueError("pre")
    for k in ("post", "dev"):
        if v[k] is not None and not (isinstance(v[k], int) and v[k] >= 0):
            raise ValueError(k)
    if v["local"] is not None:
        if not v["local"]:
            raise ValueError("local")
        for x in v["local"]:
            if isinstance(x, int):
                if x < 0:
                    raise ValueError("local")
            elif not (isinstance(x, str) and x and x.isascii() and x.isalnum() and not x.isdigit() and x == x.lower()):
                raise ValueError("local")


from srccall import with_src  # noqa: E402

# translated source: `_parse_letter_version` is proved equal to V.parseLetterVersion, which is what the scanner's
# letter groups compute on the captured texts (Src.scanLetterGroup_eq_parse, Src.scanPost_eq_parse); `Version.__str__`,
# `.public`, `.base_version`, `.is_prerelease` and `_TrimmedRelease.release` (with the property getters they read) are
# proved equal to Ver.str / .public / .base / .isPre / trimRelease on the object records of PkgModel/PyObj.lean
PROP = with_src(C02(), share=6, functions=["_parse_letter_version", "Version.__str__", "Version.public", "Version.base_version",
                        "Version.is_prerelease", "_TrimmedRelease.release", "Version.epoch", "Version.release",
                        "Version.pre", "Version.post", "Version.dev", "Version.local"],
                module=["PkgProofs.Props.Src.Version", "PkgProofs.Props.Src.VersionStr"],
                theorems=["Src._parse_letter_version_translated", "Src._parse_letter_version_eq_model",
                 "Src.scanLetterGroup_eq_parse", "Src.scanPost_eq_parse",
                 "Src.Version.__str___translated", "Src.Version.__str___eq_model",
                 "Src.Version.public_translated", "Src.Version.public_eq_model",
                 "Src.Version.base_version_translated", "Src.Version.base_version_eq_model",
                 "Src.Version.is_prerelease_translated", "Src.Version.is_prerelease_eq_model",
                 "Src._TrimmedRelease.release_translated", "Src._TrimmedRelease.release_eq_model",
                 "Src._TrimmedRelease.release_other",
                 "Src.Version.getters_translated", "Src.Version.epoch_eq_model", "Src.Version.release_eq_model",
                 "Src.Version.pre_eq_model", "Src.Version.post_eq_model", "Src.Version.dev_eq_model",
                 "Src.Version.local_eq_model"])
# x7: the remaining read-only members of Version — `.major/.minor/.micro`, `.is_devrelease`, `__repr__` — the module-level
# `parse` and `_parse_local_version` (split at the swept class of `_local_version_separators`), against
# Ver.major/minor/micro/isDev/repr, V.parse (= V.scan) and V.parseLocalVersion
PROP = with_src(PROP, share=6,
                functions=["Version.major", "Version.minor", "Version.micro", "Version.is_devrelease", "Version.__repr__",
                           "parse", "_parse_local_version"],
                module=["PkgProofs.Props.Src.X7Version"],
                theorems=["Src.x7_version_translated", "Src.Version.major_eq_model", "Src.Version.minor_eq_model",
                          "Src.Version.micro_eq_model", "Src.Version.is_devrelease_eq_model", "Src.Version.__repr___eq_model",
                          "Src.parse_eq_model", "Src._parse_local_version_eq_model", "Src.localPart_eq_localSeg"])
