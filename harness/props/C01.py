"""C01 — Version comparison is the PEP 440 total order."""
from __future__ import annotations

import random

import core
from gen import versions as G
from run import Prop


def _V():
    from packaging.version import InvalidVersion, Version
    return Version, InvalidVersion


def six(a, b):
    return "".join(core.encb(x) for x in (a < b, a <= b, a == b, a != b, a >= b, a > b))


EXPECT = {-1: "110100", 0: "011010", 1: "000111"}


class C01(Prop):
    id = "C01"
    lean_modules = ["PkgProofs.Props.C01"]
    theorems = [
        "C01.ops_agree", "C01.eq_agrees", "C01.keyOrd_total", "C01.cmp_eq_pep440", "C01.trichotomy",
        "C01.lt_trans", "C01.eq_equivalence", "C01.eq_iff_key_eq", "C01.hash_agrees",
        "C01.le_total_preorder", "C01.spec_total", "C01.sorted_unique",
    ]
    rule = ("pairs/triples of spelled versions drawn from a pool of structures with near neighbours "
            "(epoch x trailing zeros x pre/post/dev x mixed local segments x every alternate spelling); "
            "non-trivial = both strings valid; distinct = distinct protocol lines")
    trusted = ["Python's tuple rich-comparison protocol and int/str comparison as modelled in PkgModel/Version.lean",
               "hash() as an uninterpreted function of the comparison key"]
    partial = ["hash(): only 'equal keys give equal hashes' is proved; hash values themselves are CPython's"]
    budget = {"quick": (4000, 6000), "thorough": (600000, 900000)}

    def gen_cases(self, rng, n):
        pool = G.pool(rng, max(20, n // 20))
        for _ in range(n):
            a = rng.choice(pool)
            b = rng.choice(pool) if rng.random() < 0.5 else G.neighbour(rng, a)
            sa, sb = G.spell(rng, a), G.spell(rng, b)
            if rng.random() < 0.03:
                sa = G.malformed(rng, sa)
            yield ("ver.cmp", [core.enc(sa), core.enc(sb)])

    def real(self, op, args):
        Version, InvalidVersion = _V()
        a, b = (core.dec(x) for x in args)
        try:
            va, vb = Version(a), Version(b)
        except InvalidVersion:
            return "err InvalidVersion"
        return six(va, vb)

    def judge(self, op, args, real, model, driver):
        # refinement property: a disagreement is a violation iff the real code disagrees with the spec
        spec = driver.ask("\t".join(["s.ver.cmp", *args]))
        want = {"lt": "110100", "eq": "011010", "gt": "000111"}.get(spec)
        if want is not None and real != want:
            return ("six_ops_vs_spec_strings", {"a": core.dec(args[0]), "b": core.dec(args[1]), "spec": spec})
        return None

    # ---- laws on the real code
    def gen_laws(self, rng, n):
        pool = G.pool(rng, max(20, n // 30))
        k = 0
        while k < n:
            a = rng.choice(pool)
            b = rng.choice(pool) if rng.random() < 0.5 else G.neighbour(rng, a)
            c = rng.choice(pool) if rng.random() < 0.5 else G.neighbour(rng, b)
            sd = rng.randrange(1 << 30)
            yield ("six_ops_vs_spec", {"a": a, "b": b, "seed": sd}); k += 1
            if k % 3 == 0:
                yield ("transitive_total", {"a": a, "b": b, "c": c, "seed": sd}); k += 1
            if k % 10 == 0:
                xs = [rng.choice(pool) for _ in range(rng.randrange(2, 9))]
                yield ("sorted_any_order", {"xs": xs, "seed": sd}); k += 1

    def check_law(self, law, inp):
        Version, InvalidVersion = _V()
        if law == "six_ops_vs_spec_strings":
            va, vb = Version(inp["a"]), Version(inp["b"])
            got = six(va, vb)
            want = {"lt": "110100", "eq": "011010", "gt": "000111"}[inp["spec"]]
            return got == want, f"(<,<=,==,!=,>=,>)={got}, PEP 440 order says {inp['spec']}"
        rng = random.Random(inp["seed"])
        if law == "six_ops_vs_spec":
            a, b = _norm(inp["a"]), _norm(inp["b"])
            sa, sb = G.spell(rng, a), G.spell(rng, b)
            va, vb = Version(sa), Version(sb)
            got = six(va, vb)
            want = EXPECT[G.ref_cmp(a, b)]
            if got != want:
                return False, f"{sa!r} vs {sb!r}: (<,<=,==,!=,>=,>)={got}, PEP 440 says {want}"
            if va == vb and hash(va) != hash(vb):
                return False, f"{sa!r} == {sb!r} but hashes differ"
            # spelling independence: a second spelling of the same structure is equal
            sa2 = G.spell(rng, a)
            if not (Version(sa2) == va and hash(Version(sa2)) == hash(va)):
                return False, f"{sa!r} and {sa2!r} spell the same version but are not equal/hash-equal"
            # the order is one of *values*: a copy, a deep copy or an unpickled Version takes the place of the original, and an
            # object that has been hashed / compared / rendered before answers the same
            import copy
            import pickle
            for how, clone in (("copy.copy", copy.copy), ("copy.deepcopy", copy.deepcopy),
                               ("pickle round trip", lambda v: pickle.loads(pickle.dumps(v, pickle.HIGHEST_PROTOCOL)))):
                ca, cb = clone(va), clone(vb)
                if six(ca, vb) != want or six(va, cb) != want or six(ca, cb) != want:
                    return False, f"{sa!r} vs {sb!r} through {how}: {six(ca, vb)}/{six(va, cb)}/{six(ca, cb)}, PEP 440 says {want}"
                if not (ca == va and hash(ca) == hash(va) and len({ca, va}) == 1):
                    return False, f"{how} of Version({sa!r}) is not equal / hash-equal to the original"
            str(va), repr(vb), hash(va), va.public, sorted([va, vb])
            if six(va, vb) != want:
                return False, f"{sa!r} vs {sb!r} after the objects were rendered/hashed/sorted: {six(va, vb)}, PEP 440 says {want}"
            return True, ""
        if law == "transitive_total":
            vs = [Version(G.spell(rng, _norm(inp[k]))) for k in "abc"]
            a, b, c = vs
            for x, y in ((a, b), (b, c), (a, c)):
                if (x < y) + (x == y) + (x > y) != 1:
                    return False, f"trichotomy fails for {x} {y}"
            if a <= b and b <= c and not a <= c:
                return False, f"{a} <= {b} <= {c} but not {a} <= {c}"
            if a < b and b < c and not a < c:
                return False, f"< not transitive on {a} {b} {c}"
            if a == b and b == c and not a == c:
                return False, "== not transitive"
            return True, ""
        if law == "sorted_any_order":
            xs = [_norm(x) for x in inp["xs"]]
            vs = [Version(G.spell(rng, x)) for x in xs]
            s1 = sorted(vs)
            vs2 = [Version(G.spell(rng, x)) for x in xs]
            rng.shuffle(vs2)
            s2 = sorted(vs2)
            if any(not (p == q) for p, q in zip(s1, s2)):
                return False, f"sorted differs with input order/spelling: {list(map(str, s1))} vs {list(map(str, s2))}"
            ref = sorted(xs, key=G.order_key)
            if any(not (Version(G.normal(r)) == v) for r, v in zip(ref, s1)):
                return False, f"sorted is not the PEP 440 order: {list(map(str, s1))}"
            return True, ""
        raise KeyError(law)


def _norm(v):
    v = dict(v)
    if v.get("pre"):
        v["pre"] = (v["pre"][0], v["pre"][1])
    return v


from srccall import with_src  # noqa: E402

# translated source: `_cmpkey` is proved to build exactly the key V.cmpkey that the order theorems are about
PROP = with_src(C01(), ["_cmpkey"], "PkgProofs.Props.Src.Cmpkey", ["Src._cmpkey_translated", "Src._cmpkey_eq_model"])
