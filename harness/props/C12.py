"""C12 — accepted version and specifier languages are exactly PEP 440's."""
from __future__ import annotations

import core
from gen import specifiers as GS
from gen import versions as G
from run import Prop

_drv = None
_drv_pid = None


def drv():
    """one model driver per process (never shared across a fork)"""
    global _drv, _drv_pid
    import os
    if _drv is None or _drv_pid != os.getpid():
        _drv = core.Driver()
        _drv_pid = os.getpid()
    return _drv


def accepts(kind, s):
    """'1' accepted, '0' rejected with the documented exception, 'raw X' anything else"""
    from packaging.specifiers import InvalidSpecifier, Specifier
    from packaging.version import InvalidVersion, Version
    try:
        (Version if kind == "VersionRx" else Specifier)(s)
        return "1"
    except (InvalidVersion if kind == "VersionRx" else InvalidSpecifier):
        return "0"
    except Exception as e:
        return "raw " + type(e).__name__


class C12(Prop):
    id = "C12"
    lean_modules = ["PkgProofs.Props.C12", "PkgProofs.Props.C12Scan", "PkgProofs.Props.C12Req"]
    generated = ["VersionRx", "SpecifierRx"]
    theorems = ["C12.version_classes_verified", "C12.specifier_classes_verified", "C12.translator_supported",
                "C12.version_cert", *[f"C12.op{i}_cert" for i in range(8)], "C12.operators_are_pep440s",
                "C12.specifier_union", "C12.version_language", "C12.specifier_language",
                "C12.version_language_matches", "C12.specifier_language_matches",
                "Rx.equiv1_sound", "Rx.isBisim_sound", "Rx.deriv_iff", "Rx.classify_total",
                # the hand-written scanner V.scan (used by every other model) accepts exactly this language
                "C12.spec_rx_iff_spelling", "C12.scan_accepts_iff_spec_rx", "C12.scan_accepts_iff_source_regex",
                "C12.scan_rejects_non_unicode", "RxK.Ctx.classOf_kind", "RxK.Ctx.accepts_iff_M",
                "RxK.Ctx.M_version_iff_spelling",
                # the same for the specifier scanner S.parseSpec (used by C03/C04/C11)
                "C12.parseSpec_accepts_iff_spec_rx", "C12.parseSpec_accepts_iff_source_regex",
                "RxK.parse_iff", "RxK.Ctx.M_specifier_iff", "RxK.scanCore_iff",
                # last sentence of the statement: clauses inside a requirement string (corollaries of the C08 parser theorems)
                "C12.specifier_clause_accepted_in_requirement", "C12.specifier_clause_accepted_in_parentheses",
                "C12.requirement_members_are_specifier_clauses", "C12.rejected_clause_rejects_requirement",
                "C12.source_regex_rejects_then_requirement_rejects", "C12.requirement_members_match_source_regex",
                "C08.Examples.specifier_rule_tied"]
    rule = ("strings = spelled versions / clauses from the grammar, token- and character-level damage with one "
            "representative per code-point class, and the shortest word distinguishing generated and spec regex if any; "
            "non-trivial = accepted by the implementation")
    trusted = ["CPython re: structural semantics of concatenation/alternation/repetition and of $ (atoms are measured)",
               "look-behind elimination in the translator (specialisation per operator literal)"]
    partial = ["numeric components longer than the interpreter's int-from-string limit are in the language but cannot be "
               "constructed by CPython >= 3.11 (known finding)",
               "'a clause is accepted inside a requirement iff Specifier accepts it': both directions are theorems of "
               "PkgProofs/Props/C12Req.lean (specifier_clause_accepted_in_requirement / _in_parentheses: any accepted clause, any "
               "white space, any name; requirement_members_are_specifier_clauses, rejected_clause_rejects_requirement: the pieces of "
               "the clause text the parser collected); that the collected text is the substring of the source is proved for layouts "
               "only (ReqLayout.parseSource_layout), for other texts it is the law clause_in_requirement_iff_specifier; excluded as in "
               "C08.parse_render: an === text that is empty or holds a comma (finding F48/F05)"]
    budget = {"quick": (4000, 3000), "thorough": (600000, 400000)}

    def _strings(self, rng, n):
        for i in range(n):
            r = rng.random()
            if r < 0.35:
                yield "VersionRx", G.spell(rng, G.struct(rng))
            elif r < 0.55:
                yield "VersionRx", G.malformed(rng, G.spell(rng, G.struct(rng)))
            elif r < 0.8:
                yield "SpecifierRx", GS.clause(rng)
            else:
                yield "SpecifierRx", GS.malformed_clause(rng)

    def gen_cases(self, rng, n):
        for kind, s in self._strings(rng, n):
            yield ("rx.match", [kind, core.enc(s)])

    def real(self, op, args):
        return accepts(args[0], core.dec(args[1]))

    def nontrivial(self, op, args, out):
        return out == "1"

    def branch(self, op, args, out):
        return args[0] + ":" + out

    def judge(self, op, args, real, model, driver):
        spec = driver.ask("\t".join(["s.rx.match", *args]))
        if spec in "01" and real != spec:
            return ("accept_iff_pep440", {"kind": args[0], "s": core.dec(args[1])})
        return None

    def gen_laws(self, rng, n):
        # the shortest distinguishing words, if the generated and spec languages differ
        for kind in ("VersionRx", "SpecifierRx"):
            try:
                a = drv().ask("rx.distinguish\t" + kind)
            except Exception:
                a = "none"
            if a.startswith("word "):
                yield ("accept_iff_pep440", {"kind": kind, "s": core.dec(a[5:])})
        k = 0
        for kind, s in self._strings(rng, n):
            k += 1
            yield ("accept_iff_pep440", {"kind": kind, "s": s})
            if kind == "SpecifierRx" and k % 2 == 0:
                yield ("clause_in_requirement_iff_specifier", {"s": s})
            if k % 3 == 0:
                # acceptance is a property of the string alone: the same answer whatever was parsed before it (a cache of
                # parses keyed on a folded spelling would let a look-alike of an accepted string through)
                yield ("accept_after_history", {"kind": kind, "first": s, "seed": rng.randrange(1 << 30)})
            if k % 9 == 0:
                # … with every letter that has a non-ASCII look-alike folding onto it somewhere a letter is free text
                # (the local label)
                v = G.struct(rng)
                v["local"] = [rng.choice(["k", "K", "sk", "Ki", "kelvin", "s", "I", "ubuntuk"])] + \
                             [rng.choice(["1", "k", "x"]) for _ in range(rng.choice([0, 0, 1]))]
                t = G.spell(rng, v)
                if rng.random() < 0.5:
                    yield ("accept_after_history", {"kind": "VersionRx", "first": t, "seed": rng.randrange(1 << 30)})
                else:
                    yield ("accept_after_history", {"kind": "SpecifierRx", "first": rng.choice(["==", "!="]) + t,
                                                    "seed": rng.randrange(1 << 30)})

    def check_law(self, law, inp):
        if law == "accept_iff_pep440":
            s = inp["s"]
            if any(len(run) > 4000 for run in _digit_runs(s)):
                return True, "beyond the interpreter's int limit (listed separately)"
            if inp["kind"] not in ("VersionRx", "SpecifierRx"):
                raise KeyError(inp["kind"])
            real = accepts(inp["kind"], s)
            spec = drv().ask("\t".join(["s.rx.match", inp["kind"], core.enc(s)]))
            what = "Version" if inp["kind"] == "VersionRx" else "Specifier"
            if spec not in ("0", "1"):
                raise RuntimeError("spec oracle unavailable: " + spec)
            if real != spec:
                return False, f"{what}({s!r}) -> {_w(real)} but PEP 440 language membership is {spec}"
            return True, ""
        if law == "accept_after_history":
            import random
            kind, first = inp["kind"], inp["first"]
            what = "Version" if kind == "VersionRx" else "Specifier"
            if any(len(run) > 4000 for run in _digit_runs(first)):
                return True, "beyond the interpreter's int limit (listed separately)"
            r = random.Random(inp["seed"])
            twins = _twins(first, r)
            accepts(kind, first)
            accepts(kind, first.lower()); accepts(kind, first.upper())
            for t in twins:
                real = accepts(kind, t)
                spec = drv().ask("\t".join(["s.rx.match", kind, core.enc(t)]))
                if spec not in ("0", "1"):
                    raise RuntimeError("spec oracle unavailable: " + spec)
                if real != spec:
                    return False, (f"after {what}({first!r}) was parsed, {what}({t!r}) -> {_w(real)} but PEP 440 language "
                                   f"membership is {spec}")
            return True, ""
        if law == "clause_in_requirement_iff_specifier":
            from packaging.requirements import InvalidRequirement, Requirement
            s = inp["s"]
            if any(c in s for c in ",;()@[]\"'") or s != s.strip() or not s or s[0] not in "~=!<>":
                return True, "outside the law's domain"
            a = accepts("SpecifierRx", s)
            try:
                r = Requirement("name" + s)
                b = "1" if str(r.specifier) != "" else "0"
            except InvalidRequirement:
                b = "0"
            except Exception as e:
                b = "raw " + type(e).__name__
            if a != b:
                return False, f"Specifier({s!r}) -> {_w(a)} but Requirement('name'+clause) -> {_w(b)}"
            return True, ""
        raise KeyError(law)


def _w(x):
    return {"1": "accepted", "0": "rejected"}.get(x, x)


# code points that str.lower()/str.upper()/str.casefold()/NFKC map onto ASCII letters, digits or separators: a string that
# differs from an accepted one only by such substitutions is a different string and must be judged on its own
_LOOKALIKES = {"k": "\u212a", "K": "\u212a", "s": "\u017f", "S": "\u017f", "i": "\u0130\u0131", "I": "\u0130\u0131",
               "a": "\uff41\u00aa", "b": "\uff42", "c": "\uff43", "d": "\uff44", "e": "\uff45", "p": "\uff50", "r": "\uff52",
               "t": "\uff54", "v": "\uff56", "o": "\uff4f\u00ba", "l": "\uff4c", "h": "\uff48", "w": "\uff57",
               "0": "\uff10\u0660", "1": "\uff11\u00b9\u0661", "2": "\u00b2\uff12", "3": "\u00b3", "9": "\uff19",
               ".": "\uff0e\u3002", "-": "\u2010\uff0d", "_": "\uff3f", "+": "\uff0b", "!": "\uff01", "=": "\uff1d",
               "<": "\uff1c", ">": "\uff1e", "~": "\uff5e", "*": "\uff0a", " ": "\u00a0\u2003\u3000"}


def _twins(s, r):
    out = []
    pos = [i for i, c in enumerate(s) if c in _LOOKALIKES]
    r.shuffle(pos)
    for i in pos[:6]:
        for alt in _LOOKALIKES[s[i]]:
            out.append(s[:i] + alt + s[i + 1:])
    if pos:
        t = list(s)
        for i in pos:
            if r.random() < 0.5:
                t[i] = r.choice(_LOOKALIKES[s[i]])
        out.append("".join(t))
    return out


def _digit_runs(s):
    import re
    return re.findall(r"[0-9]+", s)


PROP = C12()
