"""C11 — every entry point fails only with its documented exception."""
from __future__ import annotations

import io
import random

import core
from gen import misc as GM
from gen import specifiers as GS
from gen import versions as GV
from run import Prop


def _entries():
    from packaging import _elffile, licenses, markers, metadata, requirements, specifiers, utils, version
    EG = ExceptionGroup  # noqa: F821  (Python >= 3.11)

    def from_raw(raw):
        metadata.Metadata.from_raw(raw)

    def from_raw_lazy(raw):
        m = metadata.Metadata.from_raw(raw, validate=False)
        for attr in ("metadata_version", "name", "version", "summary", "description_content_type", "requires_python",
                     "requires_dist", "provides_extra", "dynamic", "license_expression", "license_files", "keywords", "project_urls"):
            try:
                getattr(m, attr)
            except metadata.InvalidMetadata:
                pass

    def from_email(doc):
        metadata.Metadata.from_email(doc)

    def elf(data):
        f = _elffile.ELFFile(io.BytesIO(data))
        f.interpreter

    FULL = {"implementation_name": "cpython", "implementation_version": "3.9.1", "os_name": "posix", "platform_machine": "x86_64",
            "platform_release": "5.0", "platform_system": "Linux", "platform_version": "1", "python_full_version": "3.9.1",
            "platform_python_implementation": "CPython", "python_version": "3.9", "sys_platform": "linux"}
    # partial and complete environments; `extra` missing, a name, empty and None (the legacy spelling of "no extra")
    ENVS = ({}, {"os_name": "posix", "python_version": "3.9", "extra": "a"}, {"python_full_version": "3.13.0+", "extra": None},
            dict(FULL), dict(FULL, extra=None), dict(FULL, extra=""), dict(FULL, extra="A_b", python_full_version="3.13.0+"))

    def marker_eval(s):
        try:
            m = markers.Marker(s)
        except markers.InvalidMarker:
            return
        for env in ENVS:
            m.evaluate(dict(env))

    def req_marker_eval(s):
        # the marker attached to a parsed requirement (built without Marker.__init__) must fail the same way
        try:
            r = requirements.Requirement("name ; " + s)
        except requirements.InvalidRequirement:
            return
        if r.marker is not None:
            for env in ENVS:
                r.marker.evaluate(env)

    def meta_marker_eval(s):
        try:
            m = metadata.Metadata.from_raw({"metadata_version": "2.1", "name": "n", "version": "1", "requires_dist": ["name ; " + s]})
        except EG:
            return
        for r in m.requires_dist:
            if r.marker is not None:
                for env in ENVS:
                    r.marker.evaluate(env)

    def derived_sets(s):
        # objects obtained from other objects (members of a set, intersections) answer queries like constructed ones
        try:
            ss = specifiers.SpecifierSet(s)
        except specifiers.InvalidSpecifier:
            return
        both = ss & ss & s
        for x in [ss, both, *list(ss)]:
            str(x), hash(x), x == ss, x.prereleases
            for c in ("1.0", "1.0a1", version.Version("2.0.post1+l")):
                x.contains(c), c in x
            list(x.filter(["1.0", "2.0b1", version.Version("3")]))

    return {
        "Requirement.marker.evaluate": (req_marker_eval, (markers.UndefinedComparison, markers.UndefinedEnvironmentName), "marker"),
        "Metadata.requires_dist.marker.evaluate": (meta_marker_eval, (markers.UndefinedComparison, markers.UndefinedEnvironmentName), "marker"),
        "SpecifierSet(derived).queries": (derived_sets, (), "clauses"),
        "Version": (version.Version, (version.InvalidVersion,), "version"),
        "Specifier": (specifiers.Specifier, (specifiers.InvalidSpecifier,), "clause"),
        "SpecifierSet": (specifiers.SpecifierSet, (specifiers.InvalidSpecifier,), "clauses"),
        "Marker": (markers.Marker, (markers.InvalidMarker,), "marker"),
        "Marker.evaluate": (marker_eval, (markers.UndefinedComparison, markers.UndefinedEnvironmentName), "marker"),
        "Requirement": (requirements.Requirement, (requirements.InvalidRequirement,), "requirement"),
        "canonicalize_name(validate)": (lambda s: utils.canonicalize_name(s, validate=True), (utils.InvalidName,), "name"),
        "parse_wheel_filename": (utils.parse_wheel_filename, (utils.InvalidWheelFilename,), "wheel"),
        "parse_sdist_filename": (utils.parse_sdist_filename, (utils.InvalidSdistFilename,), "sdist"),
        "canonicalize_license_expression": (licenses.canonicalize_license_expression, (licenses.InvalidLicenseExpression,), "license"),
        "ELFFile": (elf, (_elffile.ELFInvalid,), "elf"),
        "Metadata.from_raw": (from_raw, (EG,), "raw"),
        "Metadata.from_raw(validate=False)": (from_raw_lazy, (), "raw"),
        "Metadata.from_email": (from_email, (EG,), "email"),
        "parse_email": (metadata.parse_email, (), "email"),
        "parse_email(bytes)": (lambda b: metadata.parse_email(b), (), "emailbytes"),
        "Metadata.from_email(bytes)": (lambda b: metadata.Metadata.from_email(b), (EG,), "emailbytes"),
        "is_normalized_name": (utils.is_normalized_name, (), "name"),
        "canonicalize_name": (utils.canonicalize_name, (), "name"),
        "canonicalize_version": (utils.canonicalize_version, (), "version"),
        "canonicalize_version(nostrip)": (lambda s: utils.canonicalize_version(s, strip_trailing_zero=False), (), "version"),
    }


def gen_input(rng, kind):
    """mostly nearly-valid inputs: valid, one edit away, or arbitrary"""
    base = {
        "version": lambda: GV.spell(rng, GV.struct(rng)),
        "clause": lambda: GS.clause(rng),
        "clauses": lambda: ",".join(GS.clause(rng) for _ in range(rng.randrange(0, 4))),
        "marker": lambda: GM.marker(rng),
        "requirement": lambda: GM.requirement(rng),
        "name": lambda: rng.choice(GM.NAMES),
        "wheel": lambda: GM.wheel_name(rng),
        "sdist": lambda: GM.sdist_name(rng),
        "license": lambda: GM.license_expr(rng),
        "email": lambda: GM.email_doc(rng),
    }
    if kind == "emailbytes":
        # a bytes document (hex), possibly with invalid UTF-8 in header values and/or the body
        from gen import metadata as GMD
        doc = GMD.build_doc(GMD.document(rng)) if rng.random() < 0.7 else GM.email_doc(rng).encode("utf-8", "surrogatepass")
        doc = doc if isinstance(doc, bytes) else doc.encode("utf-8", "surrogatepass")
        if rng.random() < 0.3:
            i = rng.randrange(len(doc) + 1)
            doc = doc[:i] + bytes([rng.choice([0xff, 0xfe, 0xc0, 0xe9, 0x80, 0x00])]) + doc[i:]
        if rng.random() < 0.2:
            doc += b"\n\n" + bytes(rng.choice([0xff, 0xe9, 0x41, 0x0a]) for _ in range(rng.randrange(1, 6)))
        return doc.hex()
    if kind == "raw":
        if rng.random() < 0.5:
            try:
                from gen import metadata as GMD
                data = GMD.raw_dict(rng)
                data = data[0] if isinstance(data, tuple) else data
                return {k: v for k, v in dict(data).items()}
            except Exception:  # noqa: BLE001
                pass
        return GM.raw_metadata(rng)
    if kind == "elf":
        if rng.random() < 0.5:
            from gen import elfgen as E
            return E.build(E.gen_desc_huge(rng) if rng.random() < 0.3 else E.gen_desc(rng)).hex()
        return GM.elf_bytes(rng).hex()
    # half of the time the richer per-area generators (grammar + token-level damage) of the area's own property
    if rng.random() < 0.5:
        try:
            alt = _area_input(rng, kind)
            if alt is not None:
                return alt
        except Exception:  # noqa: BLE001  (a generator hiccup must never become a verdict)
            pass
    s = base[kind]()
    r = rng.random()
    if r < 0.35:
        return s
    if r < 0.85:
        for _ in range(rng.choice([1, 1, 2, 3])):
            s = GV.malformed(rng, s)
        return s
    return "".join(rng.choice(GV.ODD_CHARS + list("aZ09 ()[];,@'\"<>=!~")) for _ in range(rng.randrange(0, 12)))


def _area_input(rng, kind):
    if kind == "license":
        from gen import licenses as GL
        toks = GL.expr(rng)
        for _ in range(rng.choice([0, 1, 1, 2])):
            toks = GL.damage(rng, toks)[1]
        return GL.spell(rng, toks)
    if kind == "marker":
        from gen import markers as GMK
        pool = GMK.make_pool(rng)
        s = GMK.render(GMK.formula(rng, pool), rng)
        return GMK.damage(rng, s) if rng.random() < 0.6 else s
    if kind == "requirement":
        from props.C08 import render, req_struct
        s = render(rng, req_struct(rng), loose=True)
        return GV.malformed(rng, s) if rng.random() < 0.5 else s
    if kind == "clauses":
        cl = [GS.clause(rng) if rng.random() < 0.8 else GS.malformed_clause(rng) for _ in range(rng.randrange(0, 5))]
        return rng.choice([",", " , ", ",,", ", "]).join(cl)
    if kind in ("wheel", "sdist"):
        import props.C14 as P14
        if kind == "wheel":
            w = P14.wheel_struct(rng)
            if rng.random() < 0.6:
                return P14.damage_wheel(rng, w, rng.choice(["extension", "parts", "name", "version", "build"]))[0]
            return P14.spelled_wheel(rng, w) if rng.random() < 0.5 else P14.assemble_wheel(w)
        sd = P14.sdist_struct(rng)
        name = P14.assemble_sdist(sd)
        return GV.malformed(rng, name) if rng.random() < 0.5 else name
    if kind == "email":
        from gen import metadata as GMD
        doc = GMD.build_doc(GMD.document(rng))
        return doc.decode("utf-8", "surrogateescape") if isinstance(doc, bytes) else doc
    return None


class C11(Prop):
    id = "C11"
    lean_modules = ["PkgProofs.Props.C11", "PkgProofs.Props.C02", "PkgProofs.Props.C07", "PkgProofs.Props.C14", "PkgProofs.Props.C16",
                    "PkgProofs.Props.C17", "PkgProofs.Props.C18", "PkgProofs.Props.C19"]
    theorems = ["C11.canonicalize_version_never_raises", "C11.version_reparse_never_raises", "C11.prereleases_never_raises",
                "C11.compare_no_escape", "C11.contains_no_escape",
                "C02.canon_never_raises", "C02.canon_obj_never_raises", "C14.wheel_never_raw", "C14.reject_wrong_extension",
                "C14.reject_wrong_parts", "C14.reject_bad_name", "C14.reject_bad_version", "C14.reject_bad_build",
                "C14.sdist_reject_extension", "C14.sdist_reject_no_dash", "C14.sdist_reject_version",
                "C17.raises_only_from_components", "C17.never_raises_if_components_clean", "C18.raises_iff", "C18.never_raises",
                "C19.canon_eq_spec", "C19.rejects_iff_not_wf", "C07.undefined_comparison_iff", "C16.interp_is_first_pt_interp"]
    trusted = ["the models' explicit exception sites are all the sites there are: established by correspondence and by the "
               "only_documented law on the real code, not by a theorem"]
    partial = ["the theorems are about exception flow in the models; entry points whose model is total by construction "
               "(Version, Specifier, canonicalize_name, is_normalized_name, parse_sdist_filename) are covered by the law only",
               "parse_email/from_email on str input containing surrogate code points (known finding F44); numeric components "
               "beyond the interpreter's int-from-string limit (known finding F07)"]
    rule = ("every public entry point named in the statement is called on valid, one-to-three-edits-away and arbitrary "
            "Unicode/bytes inputs; an exception class outside the documented set is a concrete violation (no oracle needed); "
            "non-trivial = the call raised its documented exception or returned on a damaged input")
    budget = {"quick": (0, 12000), "thorough": (0, 400000)}

    def gen_laws(self, rng, n):
        names = list(_entries())
        for i in range(n):
            e = names[i % len(names)]
            kind = _entries()[e][2]
            yield ("only_documented", {"entry": e, "input": gen_input(rng, kind)})

    def check_law(self, law, inp):
        if law != "only_documented":
            raise KeyError(law)
        fn, documented, kind = _entries()[inp["entry"]]
        x = inp["input"]
        if kind in ("elf", "emailbytes"):
            x = bytes.fromhex(x)
        elif kind == "raw":
            if not isinstance(x, dict):
                raise TypeError("raw metadata must be a dict")
            x = dict(x)
        elif not isinstance(x, str):
            raise TypeError("string input expected")
        try:
            fn(x)
        except documented:
            return True, "documented"
        except RecursionError:
            return True, "beyond the interpreter's recursion budget (outside the quantifier)"
        except BaseException as e:  # noqa: BLE001
            inner = ""
            return False, f"{inp['entry']} raised {type(e).__name__}: {str(e)[:120]!r} (documented: {[d.__name__ for d in documented] or 'never raises'}){inner}"
        return True, "returned"


PROP = C11()

# x9: `parse_email` (owner C18) is translated from metadata.py and proved equal to Email.parseEmail (Src/ParseEmail.lean); this property
# relies on it too (entry point that never raises / the input of `from_email` / a visiting order that does not depend on the hash seed:
# `Src.orderOf` is computed by sorting), so its obligations are listed here as well
from srccall import with_src as _x9_with_src  # noqa: E402
PROP = _x9_with_src(PROP, share=16, functions=["parse_email"], module=["PkgProofs.Props.Src.ParseEmail"],
                    theorems=["Src.parse_email_translated", "Src.parse_email_eq_model", "Src.orderOf_perm"])
