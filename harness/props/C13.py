"""C13 — name normalisation is PEP 503; is_normalized_name is its fixed-point test."""
from __future__ import annotations

import itertools

import core
from run import Prop

SEPS = "-_."
# the character partition of DESIGN §7 C13: lower-alnum, '-', '_', '.', upper, newline, other
CLASS_REPS = [list("az09m5"), ["-"], ["_"], ["."], list("AZQ"), ["\n"], [" ", "+", "é", "ſ", "İ", "\u212a", "\u212a", "K", "\x00", "١", "ı", "É", "/", "\r"]]
# non-ASCII / odd characters for the random stream (U+03A3 is outside the model: context-dependent lower-casing)
ODD = ["ſ", "İ", "ı", "\u212a", "K", "É", "é", "ß", "ǅ", "Ω", "Ａ", "١", "２", " ", "\n", "\r", "\x00", "\ud800", "+", "!", "/", " ", "\x85", "Ā", "Ⴀ", "Ꭰ", "ẞ"]
WORDS = ["a", "b", "z", "0", "9", "foo", "Foo", "BAR", "x1", "1x", "py", "A", "Z", "m", "aB"]


def ref_fold(s: str) -> str:
    """lower-case, every maximal run of - _ . becomes one '-'   (written from the property statement)"""
    out = []
    for is_sep, grp in itertools.groupby(s, key=lambda c: c in SEPS):
        out.append("-" if is_sep else "".join(grp))
    return "".join(out).lower()


def _alnum(c):
    return ("0" <= c <= "9") or ("a" <= c <= "z") or ("A" <= c <= "Z")


def ref_valid(s: str) -> bool:
    """core-metadata name: ASCII letters/digits, with . _ - only in the interior"""
    return bool(s) and all(_alnum(c) or c in SEPS for c in s) and _alnum(s[0]) and _alnum(s[-1])


def ref_normalized(s: str) -> bool:
    return ref_valid(s) and ref_fold(s) == s


_DRV = None


def _drv():
    global _DRV
    if _DRV is None:
        _DRV = core.Driver()
    return _DRV


def _names():
    from packaging.utils import InvalidName, canonicalize_name, is_normalized_name
    return InvalidName, canonicalize_name, is_normalized_name


def random_name(rng):
    k = rng.random()
    if k < 0.03:      # long names: a length-dependent shortcut in the code must not go unnoticed
        s = rng.choice("-_.").join(rng.choice(WORDS) for _ in range(rng.randrange(20, 120)))
        j = rng.randrange(4)
        if j == 0:
            s += rng.choice(["-", "_", ".", "\n", " ", "é", "--x", "A"])
        elif j == 1:
            i = rng.randrange(len(s))
            s = s[:i] + rng.choice(["--", "__", "A", " ", "ſ"]) + s[i:]
        return s.lower() if rng.random() < 0.5 else s
    if k < 0.55:      # words joined by separator runs, optional edge runs / trailing newline
        n = rng.choice([1, 1, 2, 2, 3, 4, 6])
        s = ""
        if rng.random() < 0.12:
            s += "".join(rng.choice(SEPS) for _ in range(rng.choice([1, 2])))
        for i in range(n):
            if i:
                s += "".join(rng.choice(SEPS) for _ in range(rng.choice([1, 1, 1, 2, 2, 3])))
            s += rng.choice(WORDS)
        if rng.random() < 0.12:
            s += "".join(rng.choice(SEPS) for _ in range(rng.choice([1, 2])))
        if rng.random() < 0.1:
            s += "\n"
        return s
    if k < 0.8:       # already-normalised shapes, '--' at every position
        n = rng.choice([1, 2, 3, 5, 8])
        s = "".join(rng.choice("ab0-") for _ in range(n))
        if rng.random() < 0.5:
            i = rng.randrange(len(s) + 1)
            s = s[:i] + "--" + s[i:]
        return rng.choice(["", "a", "0"]) + s + rng.choice(["", "a", "9", "\n", "a\n"])
    base = random_name_simple(rng)
    i = rng.randrange(len(base) + 1)
    j = rng.randrange(3)
    if j == 0:
        return base[:i] + rng.choice(ODD) + base[i:]
    if j == 1 and base:
        return base[:i] + rng.choice(ODD) + base[i + 1:]
    return "".join(rng.choice(ODD + list("aZ-_.")) for _ in range(rng.randrange(0, 6)))


def random_name_simple(rng):
    return rng.choice(SEPS + "x").join(rng.choice(WORDS) for _ in range(rng.choice([1, 2, 3])))


class C13(Prop):
    id = "C13"
    lean_modules = ["PkgProofs.Props.C13"]
    generated = ["NameValidRx", "NormalizedRx", "NameTables"]
    theorems = ["C13.tables_as_modelled", "C13.canon_is_fold", "C13.canon_idem", "C13.canon_eq_iff_fold_eq",
                "C13.runs_are_maximal", "C13.runs_collapsed",
                "C13.valid_classes_verified", "C13.normalized_classes_verified", "C13.validate_cert", "C13.valid_sim",
                "C13.normalized_sim", "C13.normalized_cert", "C13.normalized_language", "C13.validate_language", "C13.validName_iff_spec", "C13.validate_accepts_iff",
                "C13.normalized_iff_valid_fixed_point", "C13.normalized_iff_spec", "C13.canon_of_valid_is_normalized",
                "Names.tableOk_true", "Names.lower_idem", "Rx.accepts_eq_runK", "Rx.simulates_sound", "Rx.equiv1_sound"]
    rule = ("names = every string over the seven-class partition (lower-alnum, '-', '_', '.', upper, newline, other; "
            "representative drawn per position) up to length 5 (quick) / 7 (thorough), plus random longer names built "
            "from words and separator runs with edge runs, trailing newlines, '--' at every position and non-ASCII "
            "characters; observables canonicalize_name(n), canonicalize_name(n, validate=True) or InvalidName, "
            "is_normalized_name(n); str.lower() on every code point it changes, their neighbours and images (quick) / on every "
            "code point (thorough); the Python oracles of the laws are compared with the Lean spec on the same inputs; "
            "non-trivial = the name is accepted by validate=True")
    trusted = ["str.lower: per-code-point table regenerated from the running interpreter (checked entry by entry in Lean for "
               "idempotence); the call sites (.match, .sub('-', ...), .lower()) are hand-modelled and tied by correspondence",
               "CPython re: structural semantics of concatenation/alternation/repetition and of the anchors (atoms are measured)"]
    partial = ["the context-dependent final form of U+03A3 (GREEK CAPITAL SIGMA -> final sigma) is outside the model of str.lower: "
               "the folding theorems are about the per-code-point table; inputs containing U+03A3 are not generated by the correspondence"]
    budget = {"quick": (31000, 6000), "thorough": (2160000, 120000)}

    def _exhaustive(self, rng, maxlen):
        for n in range(maxlen + 1):
            for combo in itertools.product(range(len(CLASS_REPS)), repeat=n):
                yield "".join(rng.choice(CLASS_REPS[c]) for c in combo)

    def _lower_sweep(self, rng, full):
        """str.lower per code point: every code point it changes with its neighbours and images (quick),
        every code point (thorough)"""
        if full:
            cps = range(0x110000)
        else:
            dom = [cp for cp in range(0x110000) if chr(cp).lower() != chr(cp)]
            s = set()
            for cp in dom:
                s.update((cp - 1, cp, cp + 1))
                s.update(ord(x) for x in chr(cp).lower())
            s.update(rng.randrange(0x110000) for _ in range(500))
            cps = sorted(s)
        for cp in cps:
            if cp != 0x3A3:
                yield ("str.lower", [core.enc(chr(cp))])

    def gen_cases(self, rng, n):
        maxlen = 5 if n < 500000 else 7
        yield from self._lower_sweep(rng, maxlen == 7)
        for s in self._exhaustive(rng, maxlen):
            yield ("name.all", [core.enc(s)])
        k = 0
        while True:
            s = random_name(rng)
            if "Σ" in s:
                continue
            k += 1
            if k % 5 == 0:
                yield ("s.name.all", [core.enc(s)])
            else:
                yield ("name.all", [core.enc(s)])

    def real(self, op, args):
        s = core.dec(args[0])
        if op == "str.lower":
            return core.enc(s.lower())
        if op == "s.name.all":       # the oracles used by the laws vs the Lean spec the theorems are about
            return f"{core.enc(ref_fold(s))} {core.encb(ref_valid(s))} {core.encb(ref_normalized(s))}"
        InvalidName, canonicalize_name, is_normalized_name = _names()
        c = canonicalize_name(s)
        try:
            v = core.enc(canonicalize_name(s, validate=True))
        except InvalidName:
            v = "InvalidName"
        return f"{core.enc(c)} {v} {core.encb(is_normalized_name(s))}"

    def nontrivial(self, op, args, out):
        return op == "name.all" and " InvalidName " not in out

    def branch(self, op, args, out):
        if op != "name.all":
            return op
        parts = out.split(" ")
        s = core.dec(args[0])
        shape = ("nl-end" if s.endswith("\n") else "") + (" dd@1" if s[1:3] == "--" else "") + (" non-ascii" if any(ord(c) > 127 for c in s) else "")
        return f"valid={'0' if parts[1] == 'InvalidName' else '1'} norm={parts[2]} fixed={core.encb(parts[0] == args[0])}{' ' + shape.strip() if shape.strip() else ''}"

    def judge(self, op, args, real, model, driver):
        if op != "name.all":
            return None
        s = core.dec(args[0])
        for law in ("canon_is_fold", "validate_iff_core_metadata_name", "normalized_iff_valid_fixed_point"):
            ok, _ = self.check_law(law, {"s": s})
            if not ok:
                return (law, {"s": s})
        return None

    # ---- laws on the real code
    def gen_laws(self, rng, n):
        # a shortest string on which a regenerated pattern and its spec regex differ, if the certificates broke
        for kind, law in (("NameValidRx", "validate_iff_core_metadata_name"), ("NormalizedRx", "normalized_iff_valid_fixed_point")):
            try:
                a = _drv().ask("name.distinguish\t" + kind)
            except Exception:
                a = "none"
            if a.startswith("word "):
                yield (law, {"s": core.dec(a[5:])})
        # the shapes §8 row 2 suspects, first
        for s in ["foo\n", "a--b", "ſ", "a\n", "a--a", "K9", "a-b", "A.b_c", "", "-", "a-", "-a",
                  # non-ASCII code points that lower()/upper()/casefold() map to ASCII letters, in otherwise valid names
                  "\u212a9", "a\u212a", "\u212a", "\u212aeras", "a.\u212a.b", "\u017fetuptools", "p\u0131p", "\u0130x", "x\u0130"]:
            for law in ("validate_iff_core_metadata_name", "normalized_iff_valid_fixed_point", "canon_is_fold"):
                yield (law, {"s": s})
        # U+03A3: str.lower() chooses the final or the medial sigma by looking at the neighbours, skipping case-ignorable
        # characters ('.' is one, '-' and '_' are not) — so *when* the separators are folded relative to lower() shows
        # (laws only: the character is outside the Lean model of str.lower, see `partial`)
        for pre in ["\u0391", "a", "A", "1", ""]:
            for run in [".", "-", "_", "..", ".-", "-.", "._.", ""]:
                for post in ["\u0392", "b", "B", "1", ""]:
                    yield ("canon_is_fold", {"s": pre + "\u03a3" + run + post})
                    yield ("canon_is_fold", {"s": pre + run + "\u03a3" + post})
        # separator runs of every length up to 40, pure and mixed (a fixed chain of replace() calls, a bounded loop or a
        # regex with a bounded quantifier condense only the lengths somebody thought of)
        for n in range(1, 41):
            for run in ("-" * n, "_" * n, "." * n, "".join(rng.choice(SEPS) for _ in range(n))):
                s_ = rng.choice(WORDS) + run + rng.choice(WORDS)
                yield ("canon_is_fold", {"s": s_})
                if n % 3 == 0:
                    yield ("idempotent", {"s": s_})
        ex = self._exhaustive(rng, 4)
        k = 0
        while True:
            k += 1
            s = next(ex, None) if k % 2 else None
            if s is None:
                s = random_name(rng)
            m = k % 6
            if m == 0:
                yield ("canon_is_fold", {"s": s})
            elif m == 1:
                yield ("validate_iff_core_metadata_name", {"s": s})
            elif m == 2:
                yield ("normalized_iff_valid_fixed_point", {"s": s})
            elif m == 3:
                yield ("idempotent", {"s": s})
            elif m == 4:
                t = random_name(rng) if rng.random() < 0.3 else _respell(rng, s)
                yield ("same_canon_iff_same_fold", {"a": s, "b": t})
            else:
                yield ("canon_of_valid_is_normalized", {"s": s})

    def check_law(self, law, inp):
        InvalidName, canonicalize_name, is_normalized_name = _names()
        if law == "same_canon_iff_same_fold":
            a, b = inp["a"], inp["b"]
            got = canonicalize_name(a) == canonicalize_name(b)
            want = ref_fold(a) == ref_fold(b)
            return got == want, f"canonicalize_name({a!r}) == canonicalize_name({b!r}) is {got}, equal after folding is {want}"
        s = inp["s"]
        if not isinstance(s, str):
            raise TypeError("s")
        if law == "canon_is_fold":
            got = canonicalize_name(s)
            return got == ref_fold(s), f"canonicalize_name({s!r}) = {got!r}, folding gives {ref_fold(s)!r}"
        if law == "idempotent":
            c = canonicalize_name(s)
            return canonicalize_name(c) == c, f"canonicalize_name is not idempotent on {s!r}"
        if law == "validate_iff_core_metadata_name":
            try:
                got = canonicalize_name(s, validate=True)
            except InvalidName:
                got = None
            want = ref_valid(s)
            if (got is not None) != want:
                return False, (f"canonicalize_name({s!r}, validate=True) {'accepts' if got is not None else 'raises InvalidName'}, "
                               f"but the name is {'a valid' if want else 'not a valid'} core-metadata name")
            if got is not None and got != ref_fold(s):
                return False, f"validate=True changes the result: {got!r}"
            return True, ""
        if law == "normalized_iff_valid_fixed_point":
            got = is_normalized_name(s)
            want = ref_valid(s) and canonicalize_name(s) == s
            return got == want, (f"is_normalized_name({s!r}) is {got}, but 'valid name and canonicalize_name(n) == n' is {want}")
        if law == "canon_of_valid_is_normalized":
            if not ref_valid(s):
                return True, "outside the law's domain (not a valid name)"
            c = canonicalize_name(s)
            return is_normalized_name(c), f"canonicalize_name({s!r}) = {c!r} is not accepted by is_normalized_name"
        raise KeyError(law)


def _respell(rng, s):
    """another spelling with the same fold: change case, change separator runs"""
    out = []
    for is_sep, grp in itertools.groupby(s, key=lambda c: c in SEPS):
        g = "".join(grp)
        if is_sep:
            out.append("".join(rng.choice(SEPS) for _ in range(rng.choice([1, 1, 2, 3]))))
        else:
            out.append("".join(c.upper() if rng.random() < 0.4 and c.upper().lower() == c and len(c.upper()) == 1 else c for c in g))
    t = "".join(out)
    if rng.random() < 0.25 and t:     # and sometimes a near miss
        i = rng.randrange(len(t))
        t = t[:i] + rng.choice(["", "-", "x", t[i] * 2]) + t[i + 1:]
    return t


from srccall import with_src  # noqa: E402

# translated source: canonicalize_name / is_normalized_name are proved equal to Names.canonicalizeName / Names.isNormalized;
# the compiled patterns are resolved at translation time to the regenerated Rx terms (Gen.NameValidRx, Gen.NormalizedRx) and
# to the measured separator set of _canonicalize_regex (Gen.NameTables)
PROP = with_src(C13(), share=10, functions=["canonicalize_name", "is_normalized_name"],
                module="PkgProofs.Props.Src.Names",
                theorems=["Src.canonicalize_name_translated", "Src.is_normalized_name_translated",
                          "Src.names_patterns_supported", "Src.canonicalize_name_eq_model",
                          "Src.is_normalized_name_eq_model"])
