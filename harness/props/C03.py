"""C03 — Specifier.contains implements the PEP 440 operator semantics."""
from __future__ import annotations

import itertools
import random

import core
from gen import specifiers as GS
from gen import specrel as R
from gen import versions as GV
from run import Prop


def _api():
    from packaging import specifiers as sp
    from packaging.version import InvalidVersion, Version
    return sp, Version, InvalidVersion


def ob(x):
    return "~" if x is None else ("1" if x else "0")


def unob(a):
    return None if a == "~" else a == "1"


def enc_list(xs):
    return ",".join(core.enc(x) for x in xs)


def dec_list(a):
    return [] if a == "" else [core.dec(x) for x in a.split(",")]


WSX = [" ", "\t", "\n", "\r", "\x0b", "\x0c", "\x1c", "\x1f", "\x85", "\xa0", "\u2003", "\u3000", "\u2028"]
PAD_TOKENS = ["0", "1", "00", "10", "2", "a1", "b2", "rc1", "post1", "dev0", "", "1a", "-1", "x", "0 ", "٣"[:0] + "3"]


class C03(Prop):
    id = "C03"
    lean_modules = ["PkgProofs.Props.C03"]
    theorems = [
        "C03.contains_eq_spec_strings", "C03.contains_eq_spec", "C03.parse_readClause", "C03.readClause_sound",
        "C03.contains_override_eq_spec", "C03.compare_eq_spec",
        "C03.eq_eq_spec", "C03.ne_eq_spec", "C03.eq_wild_eq_spec", "C03.ne_wild_eq_spec", "C03.compat_eq_spec",
        "C03.le_eq_spec", "C03.ge_eq_spec", "C03.lt_eq_spec", "C03.gt_eq_spec", "C03.arbitrary_eq_spec",
        "C03.reparse_public", "C03.reparse_base", "C03.scan_epoch_release",
        "SS.versionSplit_public", "SS.pad_take", "SS.take_pad", "SS.sufToks_class",
    ]
    rule = ("operator x spec version (release length 1-5, epoch, every suffix shape, local label, wildcard; every "
            "alternate spelling) x candidate derived from the spec version (same / trailing zeros / shorter / longer / "
            "last component +-1 / epoch +-1, suffixes kept-dropped-nudged-redrawn, local label none-own-other) x "
            "prereleases setting (call argument True in 55%, constructor override); plus spec.parse on spelled and "
            "malformed clauses, spec.clause (is the stored text readable as a clause), the Lean reference semantics "
            "against the Python reference on structures (s.spec.admits), _version_split on rendered/raw/damaged version "
            "texts, _pad_version on token lists; "
            "thorough adds an exhaustive grid of normal-form clauses x candidates. non-trivial = specifier and "
            "candidate both valid; distinct = distinct protocol lines")
    trusted = ["Version parsing/rendering (C02) and the version order (C01) as modelled in PkgModel/Version.lean",
               "str.isdigit / str.lower on the ASCII strings that reach _pad_version / _compare_arbitrary"]
    partial = [
        "S.parseSpec (and V.scan) are hand-written scanners mirroring Specifier._regex / Version._regex; that they "
        "*accept* exactly what the regexes regenerated from the source accept is proved for every string "
        "(C12.parseSpec_accepts_iff_source_regex, C12.scan_accepts_iff_source_regex); that they *capture* what the "
        "regex engine captures (operator and stripped version text) is tied by the spec.parse / spec.clause "
        "correspondence (spelled, malformed and white-space-damaged clauses), not by a theorem",
        "str.isdigit / str.lower are modelled on ASCII (the strings reaching them are rendered versions)"]
    dist_limit = 250
    budget = {"quick": (30000, 30000), "thorough": (1000000, 500000)}

    def __init__(self):
        self._label = {}
        self._expect = {}

    # ------------------------------------------------------------ correspondence
    def gen_cases(self, rng, n):
        self._label = {}
        grid = list(self._grid(rng)) if n >= 100000 else []
        ngrid = min(len(grid), n // 2)
        if grid:
            rng.shuffle(grid)
            for g in grid[:ngrid]:
                yield g
        for _ in range(n - ngrid):
            k = rng.random()
            if k < 0.68:
                yield self._contains_case(rng)
            elif k < 0.80:
                c = R.clause_struct(rng)
                raw = R.arbitrary_text(rng, GV.struct(rng)) if c[0] == "===" else None
                s = R.spell_clause(rng, *c, raw)
                j = rng.random()
                if j < 0.45:
                    pass
                elif j < 0.65:
                    s = GS.malformed_clause(rng)
                elif j < 0.78:
                    s = GV.malformed(rng, s)
                elif j < 0.92:      # white space (ASCII and not) at the ends, after the operator, before `.*`, anywhere
                    i = rng.choice([0, len(s), len(c[0]) + (1 if s[:1].isspace() else 0), max(0, len(s) - 2),
                                    rng.randrange(len(s) + 1)])
                    s = s[:i] + "".join(rng.choice(WSX) for _ in range(rng.choice([1, 1, 2]))) + s[i:]
                else:
                    s += rng.choice([".*", "*", ".", ".* ", " .*", ".*.*", "+x.*", ".*+x", "\n", " ;", ")", ";x"])
                yield (rng.choice(["spec.parse", "spec.clause", "spec.clause"]), [core.enc(s)])
            elif k < 0.84:
                # the two formalisations of the statement against each other: Pep440.admits (Lean, on what the model's
                # parsers read from the strings) vs the Python reference on the structures the strings were spelled from
                op, v, wild = R.clause_struct(rng)
                c = R.candidate_near(rng, v)
                raw = R.arbitrary_text(rng, c) if op == "===" else None
                args = [core.enc(R.spell_clause(rng, op, v, wild, raw)), core.enc(GV.spell(rng, c))]
                self._expect[("s.spec.admits", tuple(args))] = core.encb(R.admits(op, v, wild, c, raw))
                yield ("s.spec.admits", args)
            elif k < 0.92:
                yield ("spec.split", [core.enc(self._split_text(rng))])
            else:
                yield self._pad_case(rng)

    def _contains_case(self, rng, plain=False):
        op, v, wild = R.clause_struct(rng)
        c = R.candidate_near(rng, v)
        raw = R.arbitrary_text(rng, c) if op == "===" else None
        if rng.random() < 0.05 and not plain:
            s = GS.malformed_clause(rng)
            label = "malformed-clause"
        else:
            s = R.spell_clause(rng, op, v, wild, raw, plain=plain)
            label = R.situation(op, v, wild, c, raw)
        cs = GV.spell(rng, c, plain=plain)
        if rng.random() < 0.03 and not plain:
            cs = GV.malformed(rng, cs)
            label = "malformed-candidate"
        ov = rng.choice([None, None, None, True, False])
        pre = rng.choice([True, True, True, True, True, True, None, None, None, False, False])
        args = [core.enc(s), ob(ov), core.enc(cs), ob(pre)]
        if pre is not True and not label.startswith("malformed"):
            label = (f"gate:arg={'None' if pre is None else 'False'},override={ov},cand-pre={R.is_pre(c)},"
                     f"spec-pre={R.is_pre(v) if op != '===' else 'text'},{'!=' if op == '!=' else 'other-op'}")
        self._label[("spec.contains", tuple(args))] = label
        return ("spec.contains", args)

    def _grid(self, rng):
        """normal-form clauses x candidates over a small exhaustive space (thorough tier)"""
        rels = [[1], [1, 0], [1, 1], [1, 0, 0], [1, 0, 1], [2], [1, 1, 0, 0], [0]]
        shapes = [dict(pre=None, post=None, dev=None), dict(pre=("a", 1), post=None, dev=None),
                  dict(pre=("rc", 0), post=None, dev=None), dict(pre=None, post=1, dev=None),
                  dict(pre=None, post=None, dev=0), dict(pre=None, post=2, dev=1), dict(pre=("b", 1), post=0, dev=None),
                  dict(pre=("a", 1), post=None, dev=3)]
        vs = [dict(epoch=e, release=r, local=None, **s) for e in (0, 1) for r in rels for s in shapes]
        locs = [None, ["x"], [1]]
        cands = [dict(v, local=l) for v in vs for l in locs]
        for op in R.OPS:
            if op == "===":
                continue
            for v in vs:
                if op == "~=" and len(v["release"]) < 2:
                    continue
                for wild in ((False, True) if op in ("==", "!=") else (False,)):
                    if wild and (v["pre"] or v["post"] is not None or v["dev"] is not None):
                        continue
                    s = op + GV.normal(v) + (".*" if wild else "")
                    es = core.enc(s)
                    for c in cands:
                        if c["epoch"] != v["epoch"] and rng.random() < 0.8:
                            continue
                        args = [es, "~", core.enc(GV.normal(c)), "1"]
                        self._label[("spec.contains", tuple(args))] = "grid:" + R.situation(op, v, wild, c)
                        yield ("spec.contains", args)

    def _split_text(self, rng):
        v = GV.struct(rng, maxrel=5)
        k = rng.random()
        if k < 0.45:
            s = GV.normal(R.pub(v))
        elif k < 0.75:
            s = GV.spell(rng, v, ws=False)
        elif k < 0.85:
            s = GV.normal(v) + rng.choice(["\n", ".*", ".", "!", "!1", ".rc1\n", "a", ".1a1", ".1c2", ".1rc", "rc", ".b", ".1b2x"])
        else:
            s = GV.malformed(rng, GV.normal(v))
        return s

    def _pad_case(self, rng):
        def toks():
            v = GV.struct(rng, maxrel=5)
            t = [str(v["epoch"])] + [str(x) for x in v["release"]]
            if v["pre"]:
                t.append(v["pre"][0] + str(v["pre"][1]))
            if v["post"] is not None:
                t.append("post" + str(v["post"]))
            if v["dev"] is not None:
                t.append("dev" + str(v["dev"]))
            if rng.random() < 0.25:
                i = rng.randrange(len(t) + 1)
                t = t[:i] + [rng.choice(PAD_TOKENS)] + t[i:]
            if rng.random() < 0.1:
                t = []
            return t
        return ("spec.pad", [enc_list(toks()), enc_list(toks())])

    def real(self, op, args):
        sp, Version, InvalidVersion = _api()
        if op == "spec.contains":
            s, ov, cand, pre = core.dec(args[0]), unob(args[1]), core.dec(args[2]), unob(args[3])
            try:
                spec = sp.Specifier(s, prereleases=ov)
            except sp.InvalidSpecifier:
                return "err InvalidSpecifier"
            item = cand
            if len(args[2]) % 3 == 0:           # exercise _coerce_version on Version objects as well
                try:
                    item = Version(cand)
                except InvalidVersion:
                    item = cand
            try:
                r = spec.contains(item, prereleases=pre)
                if pre is None:
                    r2 = item in spec
                    if r2 != r:
                        return "in-differs-from-contains"
                return core.encb(r)
            except Exception as e:
                return "raw " + type(e).__name__
        if op == "spec.parse":
            try:
                spec = sp.Specifier(core.dec(args[0]))
            except sp.InvalidSpecifier:
                return "err InvalidSpecifier"
            return "ok " + core.enc(spec.operator) + " " + core.enc(spec.version)
        if op == "s.spec.admits":
            return self._expect[(op, tuple(args))]
        if op == "spec.clause":
            try:
                spec = sp.Specifier(core.dec(args[0]))
            except sp.InvalidSpecifier:
                return "err InvalidSpecifier"
            return "ok " + core.encb(spec.operator in ("==", "!=") and spec.version.endswith(".*"))
        if op == "spec.split":
            return enc_list(sp._version_split(core.dec(args[0])))
        if op == "spec.pad":
            a, b = sp._pad_version(dec_list(args[0]), dec_list(args[1]))
            return enc_list(a) + "|" + enc_list(b)
        raise KeyError(op)

    def nontrivial(self, op, args, out):
        return not (out.startswith("err") or out.startswith("raw") or out.startswith("harness-error"))

    def branch(self, op, args, out):
        lab = self._label.get((op, tuple(args)))
        head = out.split(" ", 1)[0][:16]
        if op == "spec.contains":
            return f"contains:{lab or '?'}" + (f"={head}" if head not in ("0", "1") else "")
        if op == "spec.pad":
            a, b = dec_list(args[0]), dec_list(args[1])
            na = len(list(itertools.takewhile(str.isdigit, a)))
            nb = len(list(itertools.takewhile(str.isdigit, b)))
            return "pad:" + ("left-shorter" if na < nb else "right-shorter" if nb < na else "same") + \
                   ("+suffix" if na < len(a) or nb < len(b) else "")
        if op == "spec.split":
            s = core.dec(args[0])
            toks = out.split(",")
            return "split:" + ("epoch" if "!" in s else "noepoch") + \
                   (",prefix-regex" if len(toks) > 1 + len(s.rpartition("!")[2].split(".")) else "")
        return op + ":" + head

    def judge(self, op, args, real, model, driver):
        # refinement property: a disagreement on contains(prereleases=True) is a violation iff the real code
        # disagrees with the reference semantics there
        if op != "spec.contains":
            return None
        spec = driver.ask("\t".join(["s.spec.admits", args[0], args[2]]))
        if spec not in ("0", "1"):
            return None
        if args[3] == "1" and real in ("0", "1") and spec != real:
            return ("contains_vs_spec_strings", {"clause": core.dec(args[0]), "cand": core.dec(args[2]), "spec": spec})
        if args[3] == "~" and real.startswith("raw "):
            # a valid clause and a valid candidate, yet `contains` raised
            inp = {"clause": core.dec(args[0]), "cand": core.dec(args[2]), "spec": spec, "mode": "in"}
            try:
                if not self.check_law("contains_vs_spec_strings", inp)[0]:
                    return ("contains_vs_spec_strings", inp)
            except Exception:
                pass
        return None

    # ------------------------------------------------------------ laws on the real code
    def gen_laws(self, rng, n):
        for i in range(n):
            op, v, wild = R.clause_struct(rng)
            c = R.candidate_near(rng, v)
            inp = {"op": op, "v": v, "wild": wild, "c": c, "seed": rng.randrange(1 << 30)}
            if op == "===":
                inp["raw"] = R.arbitrary_text(rng, c)
            if i % 4 == 3:
                # a final release is not subject to the pre-release gate: `in` must give the operator's answer
                c = dict(c, pre=None, dev=None)
                inp["c"] = c
                if op == "===":
                    inp["raw"] = R.arbitrary_text(rng, c)
                yield ("in_operator_final_candidate", inp)
            else:
                yield ("contains_vs_admits", inp)

    def check_law(self, law, inp):
        sp, Version, InvalidVersion = _api()
        if law == "contains_vs_spec_strings":
            if inp.get("mode") == "in":
                if Version(inp["cand"]).is_prerelease:
                    raise ValueError("outside the domain: the gate applies to pre-release candidates")
                call = f"{inp['cand']!r} in Specifier({inp['clause']!r})"
                try:
                    got = inp["cand"] in sp.Specifier(inp["clause"])
                except InvalidVersion:
                    return False, f"{call} raises InvalidVersion, PEP 440 semantics say {inp['spec'] == '1'}"
            else:
                call = f"Specifier({inp['clause']!r}).contains({inp['cand']!r}, prereleases=True)"
                got = sp.Specifier(inp["clause"]).contains(inp["cand"], prereleases=True)
            return core.encb(got) == inp["spec"], (
                f"{call} = {got}, PEP 440 semantics (Pep440.admits) say {inp['spec'] == '1'}")
        if law == "contains_vs_admits":
            clause, cand, want = spelled(inp)
            spec = sp.Specifier(clause)
            got = spec.contains(cand, prereleases=True)
            if got != want:
                return False, f"Specifier({clause!r}).contains({cand!r}, prereleases=True) = {got}, PEP 440 says {want}"
            got2 = Version(cand) in sp.Specifier(clause, prereleases=True)
            if got2 != want:
                return False, f"Version({cand!r}) in Specifier({clause!r}, prereleases=True) = {got2}, PEP 440 says {want}"
            # the answer is about the candidate's *value*: a Version object that has already been hashed, compared and sorted,
            # or asked about other specifiers (and so carries whatever the library caches on it), gets the same answer; so does
            # a repeated question and a question put through a one-clause SpecifierSet
            used = Version(cand)
            hash(used), used == Version("0"), used < Version("1!0"), sorted([used, Version("0.dev0"), Version(cand)]), {used: 1}
            for other in ("<1!0", ">0.dev0", "==0", "!=0", "<=0", ">=0", "~=0.0", "===x"):
                sp.Specifier(other).contains(used, prereleases=True)
            for how, g in (("a Version used before", spec.contains(used, prereleases=True)), ("asked twice", spec.contains(used, prereleases=True)),
                           ("SpecifierSet of the clause", sp.SpecifierSet([sp.Specifier(clause)]).contains(used, prereleases=True)),
                           ("filter", bool(list(spec.filter([used], prereleases=True))))):
                if g != want:
                    return False, f"Specifier({clause!r}) on Version({cand!r}) ({how}) = {g}, PEP 440 says {want}"
            return True, ""
        if law == "in_operator_final_candidate":
            c = R.norm(inp["c"])
            if c.get("pre") is not None or c.get("dev") is not None:
                raise ValueError("outside the domain: the gate applies to pre-release candidates")
            clause, cand, want = spelled(inp)
            try:
                got = cand in sp.Specifier(clause)
            except InvalidVersion:
                return False, f"{cand!r} in Specifier({clause!r}) raises InvalidVersion; PEP 440 says {want}"
            return got == want, f"{cand!r} in Specifier({clause!r}) = {got}, PEP 440 says {want} (final release, no gate)"
        raise KeyError(law)


def spelled(inp):
    """(clause text, candidate text, reference answer) of a structured law input; raises outside the domain"""
    op, wild = inp["op"], bool(inp["wild"])
    v, c = R.norm(inp["v"]), R.norm(inp["c"])
    if not R.valid_clause(op, v, wild) or not R.valid_struct(c):
        raise ValueError("outside the domain")
    raw = inp.get("raw")
    if op == "===":
        if not isinstance(raw, str) or any(ch.isspace() or ch in ";)" for ch in raw) or not raw.isascii():
            raise ValueError("outside the domain")
    rng = random.Random(inp["seed"])
    clause = R.spell_clause(rng, op, v, wild, raw)
    cand = GV.spell(rng, c)
    return clause, cand, R.admits(op, v, wild, c, raw)


from srccall import with_src  # noqa: E402

# translated source: the helpers of `==V.*` / `~=V` and the eight per-operator comparison methods are proved equal to
# the model functions the theorems use (S.versionSplit / padVersion / compareLT ... compareCompatible); `Version(...)` is
# the run-time primitive backed by V.scan, and the rich comparisons of _BaseVersion go through Python's generic tuple
# comparison of the `_key`s, proved equal to the model's keyCmp / keyEq (PkgProofs/Lemmas/PyCmp.lean)
PROP = with_src(C03(), share=8, functions=[
                    "_is_not_suffix", "_version_join", "_pad_version", "_version_split",
                    "canonicalize_version__str", "canonicalize_version__object",
                    "_BaseVersion.__lt__", "_BaseVersion.__le__", "_BaseVersion.__gt__", "_BaseVersion.__ge__",
                    "_BaseVersion.__eq__", "Version.is_postrelease",
                    "Specifier._compare_less_than", "Specifier._compare_greater_than",
                    "Specifier._compare_less_than_equal", "Specifier._compare_greater_than_equal",
                    "Specifier._compare_arbitrary", "Specifier._compare_equal", "Specifier._compare_not_equal",
                    "Specifier._compare_compatible", "Specifier.contains", "Specifier.prereleases", "_BaseVersion.__ne__"],
                module=["PkgProofs.Props.Src.Specifier", "PkgProofs.Props.Src.SpecCompare", "PkgProofs.Props.Src.SpecEqual",
                        "PkgProofs.Props.Src.SpecContains", "PkgProofs.Props.Src.Gaps"],
                theorems=["Src._is_not_suffix_translated", "Src._is_not_suffix_eq_model",
                          "Src._version_join_translated", "Src._version_join_eq_model",
                          "Src._pad_version_translated", "Src._pad_version_eq_model",
                          "Src.compare_translated", "Src.equal_translated",
                          "PyRt.cmp_key", "PyRt.eq_key",
                          "Src._BaseVersion.__lt___eq_model", "Src._BaseVersion.__le___eq_model",
                          "Src._BaseVersion.__gt___eq_model", "Src._BaseVersion.__ge___eq_model",
                          "Src._BaseVersion.__eq___eq_model", "Src.Version.is_postrelease_eq_model",
                          "Src._version_split_eq_model", "Src.canonicalize_version__str_eq_model",
                          "Src.canonicalize_version__object_eq_model",
                          "Src.Specifier._compare_less_than_eq_model", "Src.Specifier._compare_greater_than_eq_model",
                          "Src.Specifier._compare_less_than_equal_eq_model",
                          "Src.Specifier._compare_greater_than_equal_eq_model",
                          "Src.Specifier._compare_arbitrary_eq_model", "Src.Specifier._compare_equal_eq_model",
                          "Src.Specifier._compare_not_equal_eq_model", "Src.Specifier._compare_compatible_eq_model",
                          "Src.contains_translated", "Src.Specifier.prereleases_eq_model",
                          "Src.get_operator_call_eq_model", "Src.Specifier.contains_eq_model",
                          "Src.Specifier._compare_not_equal_translated", "Src.Specifier._compare_compatible_translated",
                          "Src._BaseVersion.__ne___translated", "Src._BaseVersion.__ne___eq_model",
                          "Src._BaseVersion.__ne___other"])
