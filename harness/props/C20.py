"""C20 — results are deterministic, history-independent and leave inputs untouched."""
from __future__ import annotations

import functools
import os
import random
import subprocess
import sys

import core
from gen import specifiers as GS
from gen import versions as GV
from run import Prop

BATTERY = str(core.ROOT / "harness" / "battery.py")
BATTERY2 = str(core.ROOT / "harness" / "battery2.py")


def transcript2(bseed, hashseed, oseed):
    env = dict(os.environ, PYTHONHASHSEED=str(hashseed), VERIF_REPO=str(core.REPO))
    r = subprocess.run([sys.executable, BATTERY2, str(bseed), str(oseed)], capture_output=True, text=True, env=env, timeout=600)
    if r.returncode != 0:
        raise RuntimeError("battery2 failed: " + r.stderr[-400:])
    out = {}
    for line in r.stdout.splitlines():
        k, _, v = line.partition("\t")
        out[k] = v
    return out


def transcript(bseed, hashseed, oseed):
    env = dict(os.environ, PYTHONHASHSEED=str(hashseed), VERIF_REPO=str(core.REPO))
    r = subprocess.run([sys.executable, BATTERY, str(bseed), str(oseed)], capture_output=True, text=True, env=env, timeout=300)
    if r.returncode != 0:
        raise RuntimeError("battery failed: " + r.stderr[-400:])
    return r.stdout


class C20(Prop):
    id = "C20"
    lean_modules = ["PkgProofs.Props.C20", "PkgProofs.Props.C05", "PkgProofs.Props.C06", "PkgProofs.Props.C17", "PkgProofs.Props.C18"]
    theorems = ["C20.call_sound", "C20.cache_transparent", "C20.history_independent",
                # iteration-order invariance, proved next to the models that iterate a frozenset / dict
                "C05.str_perm_invariant", "C05.contains_perm_invariant", "C05.clause_order_dup_invariant", "C06.set_filter_is_filter",
                "C06.history_last_write_wins", "C06.calls_do_not_write", "C17.errors_are_exactly_offenders",
                "C17.reads_history_independent", "C17.reads_keep_invariant", "C18.result_order_irrelevant"]
    rule = ("(a) lru_cache call histories (model vs functools); (b) one battery of ~75 public-API calls run in "
            "sub-processes under different PYTHONHASHSEED values and shuffled, doubled call orders, transcripts compared "
            "byte for byte with every argument deep-copied before and compared (value and hash) after the call; "
            "(c) permutations of order-insensitive inputs (clauses, extras, compressed tag sets, raw-metadata key order, "
            "environment key order); non-trivial = transcript line without exception / cache history with a repeat")
    trusted = ["CPython hash randomisation and set/dict iteration order are runtime behaviour: observed across seeds, not proved",
               "functools.lru_cache as modelled in PkgModel/Cache.lean (tied by correspondence incl. miss counts)"]
    partial = ["hash-seed / call-order independence of the real code is observed on a battery, not proved; the proved part is "
               "cache transparency here and iteration-order invariance next to the models that iterate (C05, C06, C17)"]
    budget = {"quick": (400, 1600), "thorough": (40000, 60000)}

    # ---- correspondence: the cache model
    def gen_cases(self, rng, n):
        for _ in range(n):
            maxsize = rng.choice([1, 2, 3, 128])
            calls = [rng.randrange(0, 6) for _ in range(rng.randrange(0, 14))]
            yield ("cache.run", [str(maxsize), ",".join(map(str, calls))])

    def real(self, op, args):
        maxsize = int(args[0])
        calls = [int(x) for x in args[1].split(",")] if args[1] else []
        count = [0]

        @functools.lru_cache(maxsize=maxsize)
        def probe(n):
            count[0] += 1
            return n * n + 1
        vals = [probe(c) for c in calls]
        assert count[0] == probe.cache_info().misses
        return ",".join(map(str, vals)) + "|" + str(count[0])

    def nontrivial(self, op, args, out):
        calls = args[1].split(",")
        return len(set(calls)) < len(calls)

    def branch(self, op, args, out):
        return f"cache maxsize={args[0]}"

    # ---- laws on the real code
    def gen_laws(self, rng, n):
        k = 0
        while k < n:
            if k % 200 == 100:
                yield ("all_properties_transcript", {"battery": rng.randrange(1000), "hashseeds": [rng.randrange(1, 4000), rng.randrange(1, 4000)],
                                                     "orders": [rng.randrange(1000), rng.randrange(1000)]})
                k += 1
            if k % 200 == 0:
                yield ("transcript_independent", {"battery": rng.randrange(1000), "hashseeds": [rng.randrange(1, 4000), rng.randrange(1, 4000)],
                                                  "orders": [rng.randrange(1000), rng.randrange(1000)]})
            else:
                kind = rng.choice(["set_clause_order", "req_extras_order", "tag_order", "meta_key_order", "env_key_order", "filter_untouched",
                                   "object_stable", "object_stable"])
                inp = {"seed": rng.randrange(1 << 30)}
                if kind == "set_clause_order":
                    inp["clauses"] = _clause_list(rng)
                yield (kind, inp)
            k += 1

    def check_law(self, law, inp):
        from packaging import markers, metadata, requirements, specifiers, tags, version
        if law == "transcript_independent":
            a = transcript(inp["battery"], inp["hashseeds"][0], inp["orders"][0])
            b = transcript(inp["battery"], inp["hashseeds"][1], inp["orders"][1])
            for la in a.splitlines():
                if "ARGS-MODIFIED" in la or "REPEAT-DIFFERS" in la:
                    return False, la[:300]
            if a != b:
                for la, lb in zip(a.splitlines(), b.splitlines()):
                    if la != lb:
                        return False, f"hash seed/order {inp['hashseeds'][0]}/{inp['orders'][0]}: {la[:200]}  vs  {inp['hashseeds'][1]}/{inp['orders'][1]}: {lb[:200]}"
                return False, "transcripts differ in length"
            return True, ""
        if law == "all_properties_transcript":
            # every property's own correspondence cases, implementation side only, under two hash seeds / call orders
            a = transcript2(inp["battery"], inp["hashseeds"][0], inp["orders"][0])
            b = transcript2(inp["battery"], inp["hashseeds"][1], inp["orders"][1])
            shared = sorted(set(a) & set(b))
            if len(shared) < 300:
                raise RuntimeError(f"only {len(shared)} shared cases")
            for k in shared:
                if "REPEAT-DIFFERS" in a[k] or "REPEAT-DIFFERS" in b[k]:
                    return False, f"{k}: answer changed when the call was repeated later in the same process: {(a[k] if 'REPEAT' in a[k] else b[k])[:240]}"
                if a[k] != b[k]:
                    return False, f"{k}: hash seed/order {inp['hashseeds'][0]}/{inp['orders'][0]} -> {a[k][:160]}  vs  {inp['hashseeds'][1]}/{inp['orders'][1]} -> {b[k][:160]}"
            return True, f"{len(shared)} shared cases"
        rng = random.Random(inp["seed"])
        if law == "set_clause_order":
            near = GV.struct(rng)
            cl = list(inp["clauses"])
            if not cl:
                raise ValueError("empty clause list")
            p = list(cl); rng.shuffle(p)
            a, b = specifiers.SpecifierSet(",".join(cl)), specifiers.SpecifierSet(",".join(p))
            c = specifiers.SpecifierSet([specifiers.Specifier(x) for x in p])
            if not (str(a) == str(b) == str(c)):
                return False, f"str differs with clause order: {cl} -> {str(a)!r}; {p} -> {str(b)!r} / {str(c)!r}"
            if not (a == b == c and hash(a) == hash(b) == hash(c)):
                return False, f"==/hash differ with clause order: {cl} vs {p}"
            cands = [GV.spell(rng, GV.neighbour(rng, near)) for _ in range(5)]
            if [list(a.filter(cands)), a.prereleases] != [list(b.filter(cands)), b.prereleases]:
                return False, f"filter/prereleases differ with clause order: {cl} vs {p} on {cands}"
            return True, ""
        if law == "req_extras_order":
            ex = rng.sample(["a", "B_c", "d.e", "f", "g-h", "b-c", "b.c", "D_E", "A", "G_h", "g.H"], rng.randrange(1, 6))
            cl = [GS.clause(rng, ws=False) for _ in range(rng.randrange(0, 4))]
            p, q = list(ex), list(cl); rng.shuffle(p); rng.shuffle(q)
            r1 = requirements.Requirement("n[" + ",".join(ex) + "]" + ",".join(cl))
            r2 = requirements.Requirement("n[" + ",".join(p) + "]" + ",".join(q))
            if str(r1) != str(r2) or r1 != r2 or hash(r1) != hash(r2):
                return False, f"Requirement differs with extras/clause order: {str(r1)!r} vs {str(r2)!r} (hash equal: {hash(r1) == hash(r2)})"
            return True, ""
        if law == "tag_order":
            parts = [rng.sample(["py3", "cp39", "cp310", "PY2"], rng.randrange(1, 4)), rng.sample(["none", "abi3", "cp39"], rng.randrange(1, 3)),
                     rng.sample(["any", "linux_x86_64", "win32"], rng.randrange(1, 3))]
            t1 = tags.parse_tag("-".join(".".join(x) for x in parts))
            for x in parts:
                rng.shuffle(x)
            t2 = tags.parse_tag("-".join(".".join(x) for x in parts))
            if t1 != t2 or hash(t1) != hash(t2) or sorted(map(str, t1)) != sorted(map(str, t2)):
                return False, f"parse_tag depends on the order inside compressed sets: {parts}"
            return True, ""
        if law == "meta_key_order":
            raw = {"metadata_version": rng.choice(["2.1", "2.3", "1.1"]), "name": rng.choice(["foo", "-bad"]), "version": rng.choice(["1.0", "x"]),
                   "requires_python": rng.choice([">=3", "??"]), "provides_extra": ["a", "B"], "dynamic": ["name"] if rng.random() < 0.3 else ["classifier"],
                   "summary": rng.choice(["ok", "two\nlines"]), "bogus": "1"}
            if rng.random() < 0.5:
                del raw["bogus"]
            items = list(raw.items()); rng.shuffle(items)
            return _same_outcome(lambda: _meta_outcome(metadata, dict(raw)), lambda: _meta_outcome(metadata, dict(items)), "raw-metadata key order")
        if law == "env_key_order":
            env = {"os_name": "posix", "sys_platform": "linux", "python_version": "3.9", "extra": "a_b", "platform_machine": "x86_64"}
            if rng.random() < 0.6:
                # a *complete* environment (every marker variable), as a caller describing a target platform passes it
                env = {"implementation_name": "cpython", "implementation_version": "3.13.0", "os_name": "posix", "platform_machine": "x86_64",
                       "platform_release": "6.1", "platform_system": "Linux", "platform_version": "#1", "python_full_version": rng.choice(["3.13.0", "3.13.0+"]),
                       "platform_python_implementation": "CPython", "python_version": "3.13", "sys_platform": "linux"}
                k = rng.random()
                if k < 0.4:
                    env["extra"] = rng.choice([None, "a_b", ""])
            items = list(env.items()); rng.shuffle(items)
            m = markers.Marker("(os_name == 'posix' or extra == 'A-B') and python_version >= '3' and platform_machine != 'arm'")
            e1, e2 = dict(env), dict(items)
            r1, r2 = m.evaluate(e1), m.evaluate(e2)
            if r1 != r2 or e1 != env or e2 != env:
                return False, "evaluate depends on / modifies the environment mapping"
            return True, ""
        if law == "object_stable":
            # objects keep their value and hash across reads / operations performed on them
            from gen import misc as GM
            from packaging import requirements
            kind = rng.choice(["Marker", "Marker", "Requirement", "Requirement", "Specifier", "SpecifierSet", "Version", "Tag", "Metadata",
                               "MetadataLazy", "MetadataLazy"])
            if kind == "MetadataLazy":
                # cached metadata attributes: every read of an attribute gives the same outcome (value or the same error),
                # however often and in whatever order attributes are read
                from gen import misc as GM2
                raw = GM2.raw_metadata(rng)
                raw.pop("bogus", None)
                try:
                    m = metadata.Metadata.from_raw(dict(raw), validate=False)
                except Exception:  # noqa: BLE001
                    raise ValueError("outside the law's domain")
                attrs = ["name", "version", "metadata_version", "summary", "requires_python", "requires_dist", "provides_extra", "dynamic",
                         "license_expression", "license_files", "description_content_type", "keywords", "project_urls"]
                order = [rng.choice(attrs) for _ in range(rng.randrange(6, 20))]
                seen = {}
                for a in order:
                    try:
                        out = ("value", repr(getattr(m, a)))
                    except Exception as e:  # noqa: BLE001
                        out = ("raise", type(e).__name__, getattr(e, "field", None), str(e)[:120])
                    if a in seen and seen[a] != out:
                        return False, f"Metadata.from_raw({raw!r}, validate=False).{a}: first read {seen[a]}, later read {out}"
                    seen.setdefault(a, out)
                return True, ""
            if kind == "Marker":
                text = GM.marker(rng, 3); mk = lambda: markers.Marker(text)
            elif kind == "Requirement":
                from props.C08 import render, req_struct
                text = render(rng, req_struct(rng)); mk = lambda: requirements.Requirement(text)
            elif kind == "Specifier":
                text = GS.clause(rng); mk = lambda: specifiers.Specifier(text)
            elif kind == "SpecifierSet":
                text = ",".join(GS.clause(rng, ws=False) for _ in range(rng.randrange(0, 4))); mk = lambda: specifiers.SpecifierSet(text)
            elif kind == "Version":
                text = GV.spell(rng, GV.struct(rng)); mk = lambda: version.Version(text)
            elif kind == "Tag":
                text = "Py3-None-Any"; mk = lambda: tags.Tag("Py3", "None", "Any")
            else:
                text = "raw metadata"
                raw = {"metadata_version": "2.3", "name": "Foo", "version": "1.0", "requires_dist": ["a>=1; extra == 'X_y'"], "provides_extra": ["X_y"],
                       "requires_python": ">=3.8", "dynamic": ["Classifier"]}
                mk = lambda: metadata.Metadata.from_raw(dict(raw))
            try:
                obj, twin = mk(), mk()
            except Exception:  # noqa: BLE001
                raise ValueError("outside the law's domain: object cannot be built")

            def snap(o):
                if kind == "Metadata":
                    return [o.name, str(o.version), [str(r) for r in o.requires_dist], o.provides_extra, str(o.requires_python), o.dynamic, o.summary]
                return [str(o), repr(o).split(" @ ")[0], hash(o), o == twin, o in {twin}]
            before = snap(obj)
            cands = [GV.spell(rng, GV.struct(rng)) for _ in range(4)]
            for _ in range(rng.randrange(1, 6)):
                try:
                    if kind == "Marker":
                        obj.evaluate(rng.choice([{}, {"extra": "A_b"}, {"os_name": "nt", "extra": None}, {"python_full_version": "3.9.0+"}]))
                    elif kind == "Requirement":
                        rng.choice([lambda: obj.marker and obj.marker.evaluate({"extra": "X"}), lambda: list(obj.specifier.filter(cands)),
                                    lambda: obj == twin, lambda: str(obj), lambda: hash(obj)])()
                    elif kind in ("Specifier", "SpecifierSet"):
                        rng.choice([lambda: obj.contains(cands[0]), lambda: list(obj.filter(cands)), lambda: obj.prereleases, lambda: obj == twin,
                                    lambda: (obj & twin) if kind == "SpecifierSet" else str(obj), lambda: cands[1] in obj])()
                    elif kind == "Version":
                        rng.choice([lambda: obj < twin, lambda: obj.public, lambda: obj.is_prerelease, lambda: sorted([obj, twin]), lambda: specifiers.Specifier(">=0").contains(obj)])()
                    elif kind == "Tag":
                        rng.choice([lambda: obj == twin, lambda: {obj, twin}, lambda: str(obj)])()
                    else:
                        rng.choice([lambda: obj.requires_dist, lambda: obj.name, lambda: obj.version, lambda: obj.requires_dist[0].marker.evaluate({"extra": "x-y"}),
                                    lambda: obj.provides_extra, lambda: obj.requires_python.contains("3.9")])()
                except Exception:  # noqa: BLE001  (documented failures are other properties' business)
                    pass
            after = snap(obj)
            if before != after:
                return False, f"{kind}({text!r}) changed value/hash after being used: {before} -> {after}"
            return True, ""
        if law == "filter_untouched":
            near = GV.struct(rng)
            s = specifiers.SpecifierSet(",".join(GS.clause(rng, near=near, ws=False) for _ in range(rng.randrange(0, 4))))
            items = [(version.Version(x) if rng.random() < 0.5 else x) for x in (GV.spell(rng, GV.neighbour(rng, near)) for _ in range(6))]
            before = [(type(x), str(x), hash(x)) for x in items]
            ids = [id(x) for x in items]
            out1 = list(s.filter(items)); out2 = list(s.filter(items))
            if [(type(x), str(x), hash(x)) for x in items] != before or [id(x) for x in items] != ids:
                return False, "filter modified its input list/items"
            if [id(x) for x in out1] != [id(x) for x in out2]:
                return False, "filter is not repeatable"
            if any(id(x) not in ids for x in out1):
                return False, "filter returned objects that were not passed in"
            return True, ""
        raise KeyError(law)


def _clause_list(rng):
    near = GV.struct(rng)
    structs = [GS.clause_struct(rng, near=near) for _ in range(rng.randrange(1, 6))]
    cl = [GS.spell_clause(rng, c, ws=False) for c in structs]
    r = rng.random()
    if r < 0.3:
        cl.append(rng.choice(cl))                       # exact duplicate
    elif r < 0.6:
        c = rng.choice(structs)                         # equal clause, different spelling / trailing zeros
        if rng.random() < 0.5 and not c[2] and c[0] != "~=":
            v = dict(c[1]); v["release"] = list(v["release"]) + [0]
            c = (c[0], v, c[2])
        cl.append(GS.spell_clause(rng, c, ws=False))
    return cl


def _meta_outcome(metadata, raw):
    import copy
    snap = copy.deepcopy(raw)
    try:
        m = metadata.Metadata.from_raw(raw)
        out = ("ok", str(m.name), str(m.version), m.provides_extra, m.dynamic, str(m.requires_python), m.summary)
    except BaseException as e:  # noqa: BLE001
        out = ("exc", type(e).__name__, sorted((type(x).__name__, getattr(x, "field", None)) for x in getattr(e, "exceptions", [])))
    if raw != snap:
        out = out + ("RAW-MODIFIED",)
    return out


def _same_outcome(f, g, what):
    a, b = f(), g()
    if a != b or "RAW-MODIFIED" in a:
        return False, f"{what}: {a} vs {b}"
    return True, ""


PROP = C20()

# x9: `parse_email` (owner C18) is translated from metadata.py and proved equal to Email.parseEmail (Src/ParseEmail.lean); this property
# relies on it too (entry point that never raises / the input of `from_email` / a visiting order that does not depend on the hash seed:
# `Src.orderOf` is computed by sorting), so its obligations are listed here as well
from srccall import with_src as _x9_with_src  # noqa: E402
PROP = _x9_with_src(PROP, share=16, functions=["parse_email"], module=["PkgProofs.Props.Src.ParseEmail"],
                    theorems=["Src.parse_email_translated", "Src.parse_email_eq_model", "Src.orderOf_perm"])

# history-insensitivity on shared objects (harness/histlaw.py): programs over Specifier / SpecifierSet / Requirement / Marker
# objects; extra read-only calls and work on unrelated objects built from the same texts must not change any answer
import histlaw  # noqa: E402
PROP = histlaw.attach(PROP, every=8)
